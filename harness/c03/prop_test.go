package c03

import (
	"bytes"
	"fmt"
	"strings"
	"testing"
	"time"

	"pgregory.net/rapid"
	"verif/harness/hx"
)

const pid = "C03"

// Step is one client line; Kind tells the reference model what it is meant to be.
type Step struct {
	Kind   string      `json:"kind"`
	Line   string      `json:"line,omitempty"` // sent followed by CRLF ("bin:" prefix = raw bytes in hex-free form below)
	Raw    []byte      `json:"raw,omitempty"`  // for garbage: bytes (no LF) sent followed by CRLF
	Rcpt   string      `json:"rcpt,omitempty"`
	Msg    *hx.MailMsg `json:"msg,omitempty"`     // DATA: message sent if the server answers 354
	TooBig bool        `json:"too_big,omitempty"` // the message exceeds the configured maximum size
}

// SCase is one connection's command sequence.
type SCase struct {
	Backend string `json:"backend"`
	Steps   []Step `json:"steps"`
}

func recase(t *rapid.T, s string) string {
	if rapid.IntRange(0, 4).Draw(t, "recase") == 0 {
		return hx.ReCase(s, rapid.Uint64().Draw(t, "mask"))
	}
	return s
}

var stepGen = rapid.Custom(func(t *rapid.T) Step {
	switch rapid.SampledFrom([]string{"helo", "helo", "mail", "mail", "mail", "rcpt", "rcpt", "rcpt", "rcpt", "data", "data", "data", "rset", "noop",
		"misc", "misc", "auth", "junk", "junk", "oddcase", "badmail", "badrcpt", "dataarg", "bigdata", "quit"}).Draw(t, "what") {
	case "helo":
		return Step{Kind: "helo", Line: recase(t, rapid.SampledFrom([]string{"HELO c.test", "EHLO c.test", "EHLO [1.2.3.4] extra", "HELO", "EHLO", "EHLO  "}).Draw(t, "helo"))}
	case "mail":
		return Step{Kind: "mail", Line: recase(t, "MAIL ") + rapid.SampledFrom([]string{"FROM:<s@a.test>", "FROM:<>", "FROM:<s@a.test> SIZE=100", "FROM:<s@a.test> BODY=8BITMIME SIZE=50", "from:<S@A.Test>", "FROM: <s@a.test>"}).Draw(t, "mail")}
	case "badmail":
		return Step{Kind: "badmail", Line: "MAIL " + rapid.SampledFrom([]string{"FROM:s@a.test", "", "TO:<s@a.test>", "FROM:<s@a.test> SIZE=x", "FROM:<s@a.test> SIZE=99999999999", "FROM:<s@origin-rejected.test>", "FROM:<s@a.test", "FROM:<s@a..test>"}).Draw(t, "badmail")}
	case "rcpt":
		r := rapid.SampledFrom([]string{"r1@a.test", "r2@a.test", "r1@a.test", "R3+x@B.test", "r4@[1.2.3.4]"}).Draw(t, "rcpt")
		return Step{Kind: "rcpt", Line: recase(t, "RCPT TO:") + "<" + r + ">", Rcpt: r}
	case "badrcpt":
		return Step{Kind: "badrcpt", Line: "RCPT " + rapid.SampledFrom([]string{"TO:<r@rejected.test>", "TO:<no-at-sign>", "TO:", "FROM:<r@a.test>", "", "TO:<a@b@c>", "TO:<.r@a.test>"}).Draw(t, "badrcpt")}
	case "data":
		return Step{Kind: "data", Line: recase(t, "DATA"), Msg: hx.MailMsgGen(hx.SimpleBodyGen, 8).Draw(t, "msg")}
	case "bigdata":
		return Step{Kind: "data", Line: "DATA", TooBig: true, Msg: &hx.MailMsg{Subject: "too big", Body: bytes.Repeat([]byte("0123456789abcdef\r\n"), 400)}}
	case "dataarg":
		return Step{Kind: "dataarg", Line: "DATA now"}
	case "rset":
		return Step{Kind: "rset", Line: recase(t, "RSET")}
	case "noop":
		return Step{Kind: "noop", Line: recase(t, rapid.SampledFrom([]string{"NOOP", "NOOP x", "VRFY someone"}).Draw(t, "noop"))}
	case "misc":
		return Step{Kind: "misc", Line: recase(t, rapid.SampledFrom([]string{"SEND FROM:<a@b>", "SOML", "SAML", "EXPN list", "HELP", "TURN", "STARTTLS", "AUTH PLAIN AGFiYwBwYXNz", "AUTH PLAIN", "AUTH CRAM-MD5", "AUTH"}).Draw(t, "misc"))}
	case "auth":
		return Step{Kind: "auth", Line: "AUTH LOGIN"}
	case "quit":
		return Step{Kind: "quit", Line: recase(t, "QUIT")}
	case "oddcase":
		// letters whose upper- or lower-case form has another length in UTF-8 (or is another
		// letter altogether), alone or mixed into a verb, with or without an argument
		units := []string{"ı", "ſ", "ⱥ", "ⱦ", "ι", "ɐ", "ȿ", "İ", "K", "ß", "ŉ", "ǰ", "ﬁ", "M", "a", "i", "L", "RCPT", "mail", "DATA"}
		var line string
		if rapid.Bool().Draw(t, "uniform") {
			line = strings.Repeat(rapid.SampledFrom(units[:13]).Draw(t, "unit"), rapid.IntRange(2, 10).Draw(t, "times"))
		} else {
			line = strings.Join(rapid.SliceOfN(rapid.SampledFrom(units), 1, 8).Draw(t, "verb"), "")
		}
		ascii := true
		for i := 0; i < len(line); i++ {
			ascii = ascii && line[i] < 0x80
		}
		if ascii {
			line = "ı" + line // never a real verb: this step is judged as an unknown command
		}
		if rapid.IntRange(0, 2).Draw(t, "witharg") > 0 {
			line += " " + rapid.SampledFrom([]string{"x", "x", "ı", "FROM:<s@a.test>", "TO:<r1@a.test>", "ııı", ""}).Draw(t, "arg")
		}
		return Step{Kind: "junk", Line: line}
	}
	// junk
	switch rapid.IntRange(0, 5).Draw(t, "junkkind") {
	case 0:
		return Step{Kind: "junk", Line: ""}
	case 1:
		return Step{Kind: "junk", Line: rapid.SampledFrom([]string{"abc", "a", "   ", "FOO bar", "MAILFROM:<x@y>", "XXXX", "RCPTTO", "DATA\x00"}).Draw(t, "short")}
	case 2:
		return Step{Kind: "junk", Line: strings.Repeat(rapid.SampledFrom([]string{"A", "MAIL ", "x y "}).Draw(t, "unit"), 25000)}
	case 3:
		b := rapid.SliceOfN(rapid.Byte(), 1, 60).Draw(t, "bin")
		for i := range b {
			if b[i] == '\n' {
				b[i] = 0
			}
		}
		return Step{Kind: "junk", Raw: b}
	}
	return Step{Kind: "junk", Line: strings.NewReplacer("\n", " ", "\r", " ").Replace(rapid.StringN(1, 30, -1).Draw(t, "str"))}
})

// segGen draws either one arbitrary line or a canonical transaction block (optional greeting,
// MAIL, 1-3 RCPT, DATA + message) with arbitrary lines sometimes inserted inside it, so that
// completed transactions and sequencing errors occur in the same connection.
var segGen = rapid.Custom(func(t *rapid.T) []Step {
	if rapid.IntRange(0, 9).Draw(t, "segkind") < 5 {
		return []Step{stepGen.Draw(t, "single")}
	}
	var out []Step
	maybe := func() {
		if rapid.IntRange(0, 5).Draw(t, "insert") == 0 {
			out = append(out, stepGen.Draw(t, "inserted"))
		}
	}
	if rapid.IntRange(0, 2).Draw(t, "greet") > 0 {
		out = append(out, Step{Kind: "helo", Line: rapid.SampledFrom([]string{"HELO c.test", "EHLO c.test"}).Draw(t, "g")})
	}
	maybe()
	if rapid.IntRange(0, 7).Draw(t, "refusedmail") == 0 {
		// a client that pipelines: its MAIL is refused (syntax, size, sender policy), and the rest of
		// the transaction follows as if it had not been
		out = append(out, Step{Kind: "badmail", Line: "MAIL " + rapid.SampledFrom([]string{"FROM:s@a.test", "TO:<s@a.test>", "FROM:<s@a.test> SIZE=x", "FROM:<s@a.test> SIZE=99999999999",
			"FROM:<s@origin-rejected.test>", "FROM:<s@origin-rejected.test>", "FROM:<s@a..test>"}).Draw(t, "refused")})
	} else {
		out = append(out, Step{Kind: "mail", Line: "MAIL FROM:<s@a.test>"})
	}
	n := rapid.IntRange(1, 3).Draw(t, "nr")
	for i := 0; i < n; i++ {
		maybe()
		r := rapid.SampledFrom([]string{"r1@a.test", "r2@a.test", "R3+x@B.test", "r4@[1.2.3.4]"}).Draw(t, "r")
		out = append(out, Step{Kind: "rcpt", Line: "RCPT TO:<" + r + ">", Rcpt: r})
	}
	maybe()
	if rapid.IntRange(0, 5).Draw(t, "big") == 0 {
		out = append(out, Step{Kind: "data", Line: "DATA", TooBig: true, Msg: &hx.MailMsg{Subject: "too big", Body: bytes.Repeat([]byte("0123456789abcdef\r\n"), 400)}})
	} else {
		out = append(out, Step{Kind: "data", Line: "DATA", Msg: hx.MailMsgGen(hx.SimpleBodyGen, 5).Draw(t, "msg")})
	}
	return out
})

var propSeq = hx.Prop[SCase]{
	ID: pid, Name: "seq",
	Rule: "1-40 client lines from a grammar of valid, out-of-order, mixed-case, malformed, unimplemented, AUTH, over-long (100 KiB) and " +
		"binary lines; oracle = necessary conditions for success from the statement (MAIL 2xx only after an accepted greeting, RCPT 2xx only " +
		"inside an open transaction, DATA 354 only with >=1 recipient accepted since the last accepted MAIL; RSET/EHLO/end of DATA clear the " +
		"envelope) + success of the canonical path + exactly one well-formed reply per line (QUIT must read 221 then EOF, so a surplus or " +
		"missing reply shifts into a mismatch) within 20 s + whole-store comparison after every DATA and at the end; non-trivial = at " +
		"least one command refused for sequencing and at least one completed transaction",
	Quick: 400, Thorough: 1500,
	Gen: func(t *rapid.T) SCase {
		return SCase{
			Backend: rapid.SampledFrom([]string{"mem", "mem", "file"}).Draw(t, "backend"),
			Steps:   flatten(rapid.SliceOfN(segGen, 1, 12).Draw(t, "segments")),
		}
	},
	Run: runSeq,
}

func flatten(segs [][]Step) []Step {
	var out []Step
	for _, s := range segs {
		out = append(out, s...)
	}
	if len(out) > 40 {
		out = out[:40]
	}
	return out
}

func cfgFor(backend string) hx.Cfg {
	cfg := hx.DefaultCfg()
	cfg.Backend, cfg.NoHTTP = backend, true
	cfg.RejectDomains = []string{"rejected.test"}
	cfg.RejectOrigin = []string{"origin-rejected.test"}
	cfg.MaxRecipients = 3
	cfg.MaxMessageBytes = 4000 // only the "too big" message exceeds it
	return cfg
}

func runSeq(c SCase) *hx.Outcome {
	o := &hx.Outcome{}
	w, err := hx.NewWorld(cfgFor(c.Backend))
	if err != nil {
		o.Failf(pid+":harness", "world: %v", err)
		return o
	}
	defer w.Close()
	model := hx.NewEModel()
	cl, greet, err := w.DialSMTP()
	if err != nil || greet.Code != 220 || !greet.WellFormed {
		o.Failf(pid+":greeting", "greeting %v err %v", greet, err)
		return o
	}
	greeted, open, inAuth := false, false, false
	sender := ""
	var accepted []string
	refusedSeq, completed := false, false
	quit := false
	send := func(st Step) (hx.Reply, error) {
		b := st.Raw
		if b == nil {
			b = []byte(st.Line)
		}
		if err := cl.Write(append(append([]byte{}, b...), '\r', '\n')); err != nil {
			return hx.Reply{}, err
		}
		return cl.ReadReply()
	}
	for i, st := range c.Steps {
		where := fmt.Sprintf("step %d %s %.60q", i, st.Kind, st.Line)
		r, err := send(st)
		if err != nil {
			o.Failf(pid+":no-reply", "%s: %v", where, err)
			break
		}
		if !r.WellFormed {
			o.Failf(pid+":malformed-reply", "%s: reply %q", where, r.Lines)
			break
		}
		if inAuth {
			// this line was consumed by the AUTH LOGIN sub-dialogue
			inAuth = r.Code == 334
			continue
		}
		if r.Code == 334 {
			inAuth = true
			continue
		}
		ok := r.Class() == 2
		switch st.Kind {
		case "helo":
			hasArg := len(strings.Fields(st.Line)) >= 2
			if ok {
				greeted, open, accepted = true, false, nil
			} else if !greeted && hasArg {
				o.Failf(pid+":greeting-refused", "%s: first greeting with an argument answered %v", where, r)
			}
		case "mail", "badmail":
			if ok {
				if !greeted {
					o.Failf(pid+":mail-before-greeting", "%s: MAIL accepted (%v) although no HELO/EHLO was accepted on this connection", where, r)
				}
				if open {
					// nested MAIL accepted: the statement ties delivery to the most recent MAIL
					o.Class("nested MAIL accepted")
				}
				open, accepted = true, nil
				sender = "s@a.test"
				if strings.Contains(st.Line, "<>") {
					sender = ""
				}
				if strings.Contains(st.Line, "S@A.Test") {
					sender = "S@A.Test"
				}
				if st.Kind == "badmail" {
					o.Failf(pid+":bad-mail-accepted", "%s: answered %v", where, r)
				}
			} else {
				if st.Kind == "mail" && greeted && !open && st.Line[len(st.Line)-len("FROM: <s@a.test>"):] != "FROM: <s@a.test>" {
					o.Failf(pid+":canonical-mail-refused", "%s: valid MAIL after a greeting, no open transaction, answered %v", where, r)
				}
				if r.Code == 503 {
					refusedSeq = true
				}
			}
		case "rcpt", "badrcpt":
			if ok {
				if !open {
					o.Failf(pid+":rcpt-outside-transaction", "%s: RCPT accepted (%v) with no open transaction", where, r)
				}
				if st.Kind == "badrcpt" {
					o.Failf(pid+":bad-rcpt-accepted", "%s: answered %v", where, r)
				}
				accepted = append(accepted, st.Rcpt)
			} else {
				if st.Kind == "rcpt" && open && len(accepted) < 3 {
					o.Failf(pid+":canonical-rcpt-refused", "%s: valid RCPT in an open transaction (%d accepted, max 3) answered %v", where, len(accepted), r)
				}
				if r.Code == 503 {
					refusedSeq = true
				}
			}
		case "data", "dataarg":
			if r.Code == 354 {
				if st.Kind == "dataarg" {
					o.Failf(pid+":data-with-argument", "%s: answered 354", where)
				}
				if !open || len(accepted) == 0 {
					o.Failf(pid+":data-without-recipient", "%s: DATA answered 354 but no recipient was accepted since the most recent MAIL (open=%v)", where, open)
				}
				msg := st.Msg
				if msg == nil {
					msg = &hx.MailMsg{Subject: "x"}
				}
				data := msg.Bytes()
				_, tx := hx.DotStuff(data)
				t0 := time.Now()
				r2, err := cl.Data(data)
				if err != nil || !r2.WellFormed {
					o.Failf(pid+":no-reply", "%s: after the final dot: %v %v", where, r2, err)
					break
				}
				if r2.Code == 250 && st.TooBig {
					o.Failf(pid+":oversize-accepted", "%s: a message over the 4000-byte limit was acknowledged", where)
				}
				if r2.Code == 250 {
					completed = true
					from, to, subj := msg.Expect(sender, accepted)
					for _, rc := range accepted {
						mb, err := w.MailboxFor(rc)
						if err != nil {
							o.Failf(pid+":harness", "mailbox for %q: %v", rc, err)
							continue
						}
						model.Add(&hx.EMsg{Mailbox: mb, From: from, To: to, Subject: subj, Sender: sender, Data: tx, NotBefo: t0, NotAfter: time.Now()})
					}
				} else if !msg.BadHeader && !st.TooBig {
					o.Failf(pid+":canonical-data-refused", "%s: well-formed message answered %v", where, r2)
				}
				open, accepted = false, nil
				if err := hx.CmpE2E(w.Store, model, []string{"r1", "r2", "r3", "r4"}); err != nil {
					o.Failf(pid+":store-differs", "%s: %v", where, err)
				}
			} else {
				if st.Kind == "data" && open && len(accepted) > 0 {
					o.Failf(pid+":canonical-data-refused", "%s: DATA with %d accepted recipients answered %v", where, len(accepted), r)
				}
				if r.Code == 503 {
					refusedSeq = true
				}
			}
		case "rset":
			if ok {
				open, accepted = false, nil
			} else {
				o.Failf(pid+":rset-refused", "%s: answered %v", where, r)
			}
		case "quit":
			if r.Code != 221 {
				o.Failf(pid+":reply-count", "%s: QUIT answered %v, expected 221 (a surplus or missing reply earlier shifts the dialogue)", where, r)
			}
			quit = true
		case "junk", "misc", "noop", "auth":
			if r.Code == 354 || r.Code == 221 {
				o.Failf(pid+":reply-count", "%s: answered %v", where, r)
			}
		}
		if o.Failed() || quit {
			break
		}
	}
	if !o.Failed() && !quit && !inAuth {
		// every line got exactly one reply: QUIT must now read 221 and then EOF
		r, err := cl.Cmd("QUIT")
		if err != nil || r.Code != 221 {
			o.Failf(pid+":reply-count", "final QUIT answered %v (err %v), expected 221: replies are out of step with commands", r, err)
		}
		quit = true
	}
	if quit && !o.Failed() {
		if l, err := cl.ReadLine(hx.ReplyTimeout); err != hx.ErrClosed {
			o.Failf(pid+":reply-count", "after 221 the server sent %q / %v instead of closing", l, err)
		}
	}
	if err := cl.Close(); err != nil {
		o.Failf(pid+":session-wedged", "%v", err)
	}
	if err := hx.CmpE2E(w.Store, model, []string{"r1", "r2", "r3", "r4"}); err != nil && !o.Failed() {
		o.Failf(pid+":store-differs", "at end: %v", err)
	}
	o.NonTrivial = refusedSeq && completed
	if completed {
		o.Class("completed transaction")
	}
	if refusedSeq {
		o.Class("503 seen")
	}
	return o
}

// ---- (b) connection cut after every byte of a valid dialogue ----

type CTxn struct {
	Rcpts []string `json:"rcpts"`
	Body  string   `json:"body"`
	// Hdr is an extra header line of the message: legal but unusual sender/recipient headers that
	// name no address (RFC 5322 groups, empty values); the envelope sender then stands in.
	Hdr string `json:"hdr,omitempty"`
}

// (a To header naming nobody is taken at its word - the message then lists no recipients - so only
// sender-side forms are used here, where the envelope sender stands in)
var oddHeaders = []string{"", "", "", "From: Undisclosed senders:;", "From: nobody:;, also-nobody:;", "From:", "From: <>",
	"Sender: x", "From: =?utf-8?q?=00?=", "Cc: a:;", "From: Undisclosed senders:;\r\nCc: undisclosed-recipients:;"}

type CCase struct {
	Backend string `json:"backend"`
	Txns    []CTxn `json:"txns"`
}

var propCut = hx.Prop[CCase]{
	ID: pid, Name: "cut",
	Rule: "a generated valid dialogue of 1-3 transactions (1-2 recipients, short distinct bodies incl. dot lines) is replayed in lock-step and " +
		"the connection is cut after k bytes for EVERY k in 0..L (L = wire length, <= ~600 quick / ~4 KiB thorough): the store must then " +
		"hold exactly the transactions whose 250 the client had read, optionally plus the one whose data and final dot were completely " +
		"written, each message complete, nothing else; every (dialogue, k) pair is one evaluation; non-trivial = the cut falls inside a " +
		"command line or inside DATA",
	Quick: 3, Thorough: 12,
	Gen: func(t *rapid.T) CCase {
		c := CCase{Backend: rapid.SampledFrom([]string{"mem", "file"}).Draw(t, "backend")}
		n := rapid.IntRange(1, 3).Draw(t, "ntxn")
		big := hx.Tier() == "thorough"
		for i := 0; i < n; i++ {
			x := CTxn{Rcpts: []string{fmt.Sprintf("c%d@a.test", i)}}
			if rapid.Bool().Draw(t, "two") {
				x.Rcpts = append(x.Rcpts, fmt.Sprintf("d%d@a.test", i))
			}
			lines := rapid.IntRange(1, 3).Draw(t, "lines")
			if big {
				lines = rapid.IntRange(1, 25).Draw(t, "lines")
			}
			for j := 0; j < lines; j++ {
				x.Body += rapid.SampledFrom([]string{"text line", ".dot", "..", "", "x"}).Draw(t, "line") + fmt.Sprintf(" %d/%d\r\n", i, j)
			}
			x.Hdr = rapid.SampledFrom(oddHeaders).Draw(t, "hdr")
			c.Txns = append(c.Txns, x)
		}
		return c
	},
	Run: runCut,
}

type chunk struct {
	b      []byte
	txn    int  // transaction this chunk belongs to, -1 none
	isData bool // the message data including the final dot
}

func dialogue(c CCase) (chunks []chunk, datas [][]byte) {
	add := func(s string, txn int) { chunks = append(chunks, chunk{b: []byte(s + "\r\n"), txn: txn}) }
	add("EHLO c.test", -1)
	for i, x := range c.Txns {
		add("MAIL FROM:<s@a.test>", i)
		for _, r := range x.Rcpts {
			add("RCPT TO:<"+r+">", i)
		}
		add("DATA", i)
		hdr := ""
		if x.Hdr != "" {
			hdr = x.Hdr + "\r\n"
		}
		data := []byte(fmt.Sprintf("Subject: cut %d\r\n%s\r\n%s", i, hdr, x.Body))
		wire, tx := hx.DotStuff(data)
		datas = append(datas, tx)
		chunks = append(chunks, chunk{b: wire, txn: i, isData: true})
	}
	add("QUIT", -1)
	return
}

func runCut(c CCase) *hx.Outcome {
	o := &hx.Outcome{}
	chunks, datas := dialogue(c)
	total := 0
	for _, ch := range chunks {
		total += len(ch.b)
	}
	w, err := hx.NewWorld(cfgFor(c.Backend))
	if err != nil {
		o.Failf(pid+":harness", "world: %v", err)
		return o
	}
	defer w.Close()
	inside := 0
	for k := 0; k <= total; k++ {
		// fresh store content for every cut
		for i, x := range c.Txns {
			for _, r := range x.Rcpts {
				_ = w.Store.PurgeMessages(strings.SplitN(r, "@", 2)[0])
			}
			_ = i
		}
		cl, _, err := w.DialSMTP()
		if err != nil {
			o.Failf(pid+":harness", "dial: %v", err)
			return o
		}
		sent := 0
		acked := map[int]bool{} // transactions whose 250 was read
		pending := -1           // transaction whose data was completely written, reply unread
		mid := false
		for _, ch := range chunks {
			if sent+len(ch.b) > k {
				part := ch.b[:k-sent]
				if len(part) > 0 {
					_ = cl.Write(part)
					mid = true
				}
				sent = k
				break
			}
			if err := cl.Write(ch.b); err != nil {
				o.Failf(pid+":harness", "cut %d: write: %v", k, err)
				_ = cl.Close()
				return o
			}
			sent += len(ch.b)
			if sent == k {
				if ch.isData {
					pending = ch.txn
				}
				break // cut exactly after this chunk, reply unread
			}
			r, err := cl.ReadReply()
			if err != nil || (r.Class() != 2 && r.Code != 354) {
				o.Failf(pid+":canonical-path-refused", "cut %d: %.40q answered %v (err %v)", k, ch.b, r, err)
				_ = cl.Close()
				return o
			}
			if ch.isData {
				acked[ch.txn] = true
			}
		}
		if mid {
			inside++
		}
		if err := cl.Close(); err != nil {
			o.Failf(pid+":session-wedged", "cut %d: %v", k, err)
			return o
		}
		// the store must hold exactly acked (+ optionally pending), each complete
		check := func(withPending bool) error {
			m := hx.NewEModel()
			for i, x := range c.Txns {
				if !acked[i] && !(withPending && pending == i) {
					continue
				}
				var to []*mailAddr
				for _, r := range x.Rcpts {
					to = append(to, &mailAddr{Address: r})
				}
				for _, r := range x.Rcpts {
					m.Add(&hx.EMsg{Mailbox: strings.SplitN(r, "@", 2)[0], From: &mailAddr{Address: "s@a.test"}, To: to,
						Subject: fmt.Sprintf("cut %d", i), Sender: "s@a.test", Data: datas[i]})
				}
			}
			return hx.CmpE2E(w.Store, m, nil)
		}
		err1 := check(false)
		if err1 != nil {
			if pending < 0 {
				o.Failf(pid+":cut-state", "connection cut after %d of %d bytes (acknowledged transactions %v): %v", k, total, keys(acked), err1)
				return o
			}
			if err2 := check(true); err2 != nil {
				o.Failf(pid+":cut-state", "connection cut after %d of %d bytes (acknowledged %v, fully transmitted %d): store matches neither allowed state: %v / %v", k, total, keys(acked), pending, err1, err2)
				return o
			}
		}
	}
	o.NonTrivial = inside > 0
	o.Class(fmt.Sprintf("dialogue of %d transactions", len(c.Txns)))
	hx.AddEvaluations("cut", total, inside, fmt.Sprintf("%s|%v", c.Backend, c.Txns))
	return o
}

func keys(m map[int]bool) []int {
	var l []int
	for i := 0; i < 8; i++ {
		if m[i] {
			l = append(l, i)
		}
	}
	return l
}

var _ = bytes.Equal

// ---- pipe: the same dialogue however its bytes are grouped into writes ----

// PCase: a valid dialogue (as in 'cut') whose chunks (command lines, message data) are sent
// in groups: the client writes Groups[i] chunks at once (in fragments of Frag bytes when
// Frag > 0) and only then reads their replies.
type PCase struct {
	CCase
	Groups []int `json:"groups"`
	Frag   int   `json:"frag"`
}

var propPipe = hx.Prop[PCase]{
	ID: pid, Name: "pipe",
	Rule: "a generated valid dialogue of 1-3 transactions is sent with its command lines and message data grouped into writes of 1..all chunks " +
		"(the final dot together with the next command, a whole transaction, the whole dialogue at once), optionally fragmented into writes " +
		"of 1-7 bytes; a byte stream has no write boundaries, so the replies must be the lock-step ones (one per command line, 354 for DATA, " +
		"250 after each final dot, 221 for QUIT) and every transaction must be stored complete; non-trivial = some write carries the end of a " +
		"message together with the following command; distinct = distinct case JSON",
	Quick: 150, Thorough: 1500,
	Gen: func(t *rapid.T) PCase {
		c := PCase{CCase: propCut.Gen(t)}
		switch rapid.IntRange(0, 3).Draw(t, "mode") {
		case 0:
			c.Groups = []int{1000} // everything in one write
		case 1:
			c.Groups = rapid.SliceOfN(rapid.IntRange(1, 4), 1, 12).Draw(t, "groups")
		default:
			c.Groups = rapid.SliceOfN(rapid.SampledFrom([]int{1, 1, 2, 2, 3, 6}), 1, 12).Draw(t, "groups")
		}
		c.Frag = rapid.SampledFrom([]int{0, 0, 0, 1, 3, 7}).Draw(t, "frag")
		return c
	},
	Run: func(c PCase) *hx.Outcome {
		o := &hx.Outcome{}
		chunks, datas := dialogue(c.CCase)
		w, err := hx.NewWorld(cfgFor(c.Backend))
		if err != nil {
			o.Failf(pid+":harness", "world: %v", err)
			return o
		}
		defer w.Close()
		cl, _, err := w.DialSMTP()
		if err != nil {
			o.Failf(pid+":harness", "dial: %v", err)
			return o
		}
		defer cl.Close()
		i, g := 0, 0
		crossing := false
		for i < len(chunks) {
			n := 1
			if g < len(c.Groups) {
				n = c.Groups[g]
			}
			g++
			if i+n > len(chunks) {
				n = len(chunks) - i
			}
			var buf []byte
			for _, ch := range chunks[i : i+n] {
				buf = append(buf, ch.b...)
			}
			for k := i; k < i+n-1; k++ {
				if chunks[k].isData {
					crossing = true
				}
			}
			// the writer must not wait for the reader: replies are read as they come
			werr := make(chan error, 1)
			go func() {
				if c.Frag <= 0 {
					werr <- cl.Write(buf)
					return
				}
				for off := 0; off < len(buf); off += c.Frag {
					end := off + c.Frag
					if end > len(buf) {
						end = len(buf)
					}
					if err := cl.Write(buf[off:end]); err != nil {
						werr <- err
						return
					}
				}
				werr <- nil
			}()
			for _, ch := range chunks[i : i+n] {
				r, err := cl.ReadReply()
				want := "2xx"
				ok := err == nil && r.WellFormed && r.Class() == 2
				if string(ch.b) == "DATA\r\n" {
					want, ok = "354", err == nil && r.Code == 354
				}
				if !ok {
					o.Failf(pid+":pipelined-reply", "[%s] chunks %d..%d written together (frag %d): %.30q answered %v (err %v), want %s", c.Backend, i, i+n-1, c.Frag, ch.b, r, err, want)
					return o
				}
			}
			if err := <-werr; err != nil {
				o.Failf(pid+":pipelined-write", "write: %v", err)
				return o
			}
			i += n
		}
		m := hx.NewEModel()
		for i, x := range c.Txns {
			var to []*mailAddr
			for _, r := range x.Rcpts {
				to = append(to, &mailAddr{Address: r})
			}
			for _, r := range x.Rcpts {
				m.Add(&hx.EMsg{Mailbox: strings.SplitN(r, "@", 2)[0], From: &mailAddr{Address: "s@a.test"}, To: to,
					Subject: fmt.Sprintf("cut %d", i), Sender: "s@a.test", Data: datas[i]})
			}
		}
		if err := hx.CmpE2E(w.Store, m, nil); err != nil {
			o.Failf(pid+":pipelined-store", "[%s] groups %v frag %d: %v", c.Backend, c.Groups, c.Frag, err)
		}
		o.NonTrivial = crossing
		if crossing {
			o.Class("end of data and next command in one write")
		}
		if c.Frag > 0 {
			o.Class("fragmented writes")
		}
		return o
	},
}

func TestProp(t *testing.T) {
	t.Run("seq", propSeq.Check)
	t.Run("cut", propCut.Check)
	t.Run("pipe", propPipe.Check)
	t.Run("pair", propPair.Check)
}
func TestRegress(t *testing.T) {
	propSeq.Regress(t)
	propCut.Regress(t)
	propPipe.Regress(t)
	propPair.Regress(t)
}
func TestReplay(t *testing.T) {
	if *hx.ReplayPath == "" {
		t.Skip("no -replay")
	}
	if !propSeq.Replay(t, *hx.ReplayPath) && !propCut.Replay(t, *hx.ReplayPath) && !propPipe.Replay(t, *hx.ReplayPath) && !propPair.Replay(t, *hx.ReplayPath) {
		t.Fatalf("no prop matches %s", *hx.ReplayPath)
	}
}
func TestMain(m *testing.M) { hx.Main(m) }
