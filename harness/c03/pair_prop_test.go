package c03

import (
	"fmt"
	"time"

	"pgregory.net/rapid"
	"verif/harness/hx"
)

// ---- pair: transactions of connections that are open at the same time ----

// XTxn is one transaction of one connection: its recipients (indices, made unique per
// connection and transaction) and how it ends.
type XTxn struct {
	NRcpt int    `json:"nrcpt"`
	End   string `json:"end"` // data | rset | ehlo
}

// XCase: 2-4 connections, each a list of transactions, and the order in which the
// connections take their next step (a step = one command and its reply, in lock-step).
type XCase struct {
	Backend string   `json:"backend"`
	MaxRcpt int      `json:"max_rcpt"`
	Conns   [][]XTxn `json:"conns"`
	Order   []int    `json:"order"`
}

var propPair = hx.Prop[XCase]{
	ID: pid, Name: "pair",
	Rule: "2-4 connections open at the same time, each running 1-3 valid transactions (MAIL, 1-4 RCPT to addresses of its own, then DATA + message, " +
		"RSET or EHLO), their command/reply steps interleaved in a generated order (harness-owned schedule over net.Pipe sessions; what is left when " +
		"the order runs out is played connection by connection); oracle: every command gets the reply the connection's own dialogue calls for, and the " +
		"store holds exactly the completed transactions, each message only in the mailboxes of the recipients accepted in that very transaction " +
		"(whole-store comparison incl. trace headers and content); non-trivial = two connections are inside a transaction at the same time; " +
		"distinct = distinct case JSON",
	Quick: 150, Thorough: 1500,
	Gen: func(t *rapid.T) XCase {
		c := XCase{Backend: rapid.SampledFrom([]string{"mem", "file"}).Draw(t, "backend"), MaxRcpt: rapid.SampledFrom([]int{4, 5, 200}).Draw(t, "maxrcpt")}
		n := rapid.IntRange(2, 4).Draw(t, "nconn")
		steps := 0
		for i := 0; i < n; i++ {
			var l []XTxn
			for k, m := 0, rapid.IntRange(1, 3).Draw(t, "ntxn"); k < m; k++ {
				x := XTxn{NRcpt: rapid.IntRange(1, 4).Draw(t, "nrcpt"), End: rapid.SampledFrom([]string{"data", "data", "data", "rset", "ehlo"}).Draw(t, "end")}
				l = append(l, x)
				steps += x.NRcpt + 3
			}
			c.Conns = append(c.Conns, l)
		}
		c.Order = rapid.SliceOfN(rapid.IntRange(0, n-1), steps/2, steps+n).Draw(t, "order")
		return c
	},
	Run: func(c XCase) *hx.Outcome {
		o := &hx.Outcome{}
		cfg := hx.DefaultCfg()
		cfg.Backend, cfg.NoHTTP, cfg.MaxRecipients = c.Backend, true, c.MaxRcpt
		w, err := hx.NewWorld(cfg)
		if err != nil {
			o.Failf(pid+":harness", "world: %v", err)
			return o
		}
		defer w.Close()
		model := hx.NewEModel()
		// one little state machine per connection: pos = (transaction, step within it)
		type conn struct {
			cl       *hx.SMTPClient
			txn, st  int // st: 0 MAIL, 1..NRcpt RCPT, NRcpt+1 DATA/RSET/EHLO, then next transaction
			accepted []string
			inTxn    bool
			done     bool
		}
		conns := make([]*conn, len(c.Conns))
		for i := range c.Conns {
			cl, _, err := w.DialSMTP()
			if err != nil {
				o.Failf(pid+":harness", "dial: %v", err)
				return o
			}
			defer cl.Close()
			helo := fmt.Sprintf("c%d.test", i)
			if r, err := cl.Cmd("EHLO " + helo); err != nil || r.Code != 250 {
				o.Failf(pid+":harness", "EHLO: %v %v", r, err)
				return o
			}
			conns[i] = &conn{cl: cl}
		}
		overlap := false
		step := func(i int) bool {
			cn := conns[i]
			if cn.done {
				return false
			}
			x := c.Conns[i][cn.txn]
			where := fmt.Sprintf("connection %d transaction %d", i, cn.txn)
			sender := fmt.Sprintf("s%d@a.test", i)
			switch {
			case cn.st == 0:
				r, err := cn.cl.Cmd("MAIL FROM:<" + sender + ">")
				if err != nil || r.Code != 250 {
					o.Failf(pid+":pair-reply", "%s: MAIL answered %v (err %v)", where, r, err)
					return false
				}
				cn.inTxn, cn.accepted = true, nil
				for j, other := range conns {
					if j != i && other.inTxn {
						overlap = true
					}
				}
			case cn.st <= x.NRcpt:
				rc := fmt.Sprintf("c%dt%dr%d@a.test", i, cn.txn, cn.st)
				r, err := cn.cl.Cmd("RCPT TO:<" + rc + ">")
				if err != nil || r.Code != 250 {
					o.Failf(pid+":pair-reply", "%s: RCPT TO:<%s> answered %v (err %v), it is recipient %d of at most %d", where, rc, r, err, cn.st, c.MaxRcpt)
					return false
				}
				cn.accepted = append(cn.accepted, rc)
			default:
				switch x.End {
				case "rset", "ehlo":
					cmd := map[string]string{"rset": "RSET", "ehlo": fmt.Sprintf("EHLO c%d.test", i)}[x.End]
					if r, err := cn.cl.Cmd(cmd); err != nil || r.Code != 250 {
						o.Failf(pid+":pair-reply", "%s: %s answered %v (err %v)", where, cmd, r, err)
						return false
					}
				default:
					if r, err := cn.cl.Cmd("DATA"); err != nil || r.Code != 354 {
						o.Failf(pid+":pair-reply", "%s: DATA with %d accepted recipients answered %v (err %v)", where, len(cn.accepted), r, err)
						return false
					}
					subject := fmt.Sprintf("pair c%d t%d", i, cn.txn)
					data := []byte(fmt.Sprintf("Subject: %s\r\nFrom: f%d@a.test\r\n\r\nbody of %s\r\n", subject, i, subject))
					t0 := time.Now()
					if r, err := cn.cl.Data(data); err != nil || r.Code != 250 {
						o.Failf(pid+":pair-reply", "%s: end of DATA answered %v (err %v)", where, r, err)
						return false
					}
					_, tx := hx.DotStuff(data)
					var to []*mailAddr
					for _, rc := range cn.accepted {
						to = append(to, &mailAddr{Address: rc})
					}
					for _, rc := range cn.accepted {
						l, _ := hx.SplitAddr(rc)
						model.Add(&hx.EMsg{Mailbox: l, From: (&hx.Addr{Address: fmt.Sprintf("f%d@a.test", i)}).Mail(), To: to, Subject: subject,
							Sender: sender, Helo: fmt.Sprintf("c%d.test", i), Data: tx, NotBefo: t0, NotAfter: time.Now()})
					}
				}
				cn.inTxn = false
				cn.txn++
				cn.st = -1
				if cn.txn == len(c.Conns[i]) {
					cn.done = true
				}
			}
			cn.st++
			return true
		}
		for _, i := range c.Order {
			if i < len(conns) {
				step(i)
			}
			if o.Failed() {
				return o
			}
		}
		for i := range conns {
			for step(i) {
			}
			if o.Failed() {
				return o
			}
		}
		if err := hx.CmpE2E(w.Store, model, nil); err != nil {
			o.Failf(pid+":pair-store", "[%s] after all connections finished: %v", c.Backend, err)
		}
		o.NonTrivial = overlap
		o.Class("backend " + c.Backend)
		return o
	},
}
