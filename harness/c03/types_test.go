package c03

import "net/mail"

type mailAddr = mail.Address
