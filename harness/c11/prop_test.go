package c11

import (
	"bytes"
	"fmt"
	"io"
	"os"
	"path/filepath"
	"sort"
	"strings"
	"testing"

	"github.com/inbucket/inbucket/v3/pkg/extension"
	"github.com/inbucket/inbucket/v3/pkg/storage"
	"github.com/inbucket/inbucket/v3/pkg/verifhook"
	"pgregory.net/rapid"
	"verif/harness/hx"
)

const pid = "C11"

type Target struct {
	K   string `json:"k"` // add | seen | remove | purge
	Box int    `json:"box"`
	N   int    `json:"n"`   // seen/remove: which live message
	Big bool   `json:"big"` // add: body larger than the 4 KiB write buffer
}

type Case struct {
	Cap    int      `json:"cap"`
	Boxes  []string `json:"boxes"`
	Prefix []hx.Op  `json:"prefix"`
	Target Target   `json:"target"`
	Masks  []uint16 `json:"masks"` // subsets of directory entries already removed when RemoveAll is interrupted
	// Cap2, when > 0, is the cap the server was restarted with before the target operation (a
	// lowered or newly enabled cap): the target's mailbox may then hold more than the cap.
	Cap2 int `json:"cap2,omitempty"`
}

var prefixKinds = []string{"add", "add", "add", "add", "add", "seen", "remove", "purge"}

var prop = hx.Prop[Case]{
	ID: pid, Name: "crash",
	Rule: "a generated prefix history (2-4 mailboxes incl. lock-bucket mates, cap 0/2/3, bodies up to 12 KiB) then one target operation " +
		"(add, add at the cap, mark-seen, remove, remove of the last message, purge); the directory tree is snapshotted at EVERY instrumented " +
		"file-system mutation point of the target (exhaustive per case), plus torn-write variants (the file being written truncated to 0, 1, " +
		"each 4096 multiple, len-1) and, for directory removal, generated subsets of already-removed entries; a fresh file.New on each " +
		"snapshot must visit and list every mailbox, show every untouched message with full content, show the target's mailbox exactly " +
		"in its before or its after state, and accept a new delivery; each crash state is one evaluation; non-trivial = the crash point " +
		"lies strictly between two mutations of the operation or inside a write",
	Quick: 60, Thorough: 400,
	Gen: func(t *rapid.T) Case {
		c := Case{Cap: rapid.SampledFrom([]int{0, 0, 2, 3}).Draw(t, "cap"), Boxes: hx.BoxesGen(2, 4).Draw(t, "boxes")}
		og := hx.OpGen(prefixKinds)
		mg := hx.SizedMsgGen([]int{10, 200, 3000, 5000, 12000})
		c.Prefix = rapid.SliceOfN(rapid.Custom(func(t *rapid.T) hx.Op {
			op := og.Draw(t, "op")
			if op.K == "add" {
				op.Msg = mg.Draw(t, "m")
			}
			if op.Ref != nil {
				op.Ref.Kind = "issued"
			}
			return op
		}), 2, 14).Draw(t, "prefix")
		c.Target = Target{K: rapid.SampledFrom([]string{"add", "add", "seen", "remove", "remove", "purge"}).Draw(t, "tk"),
			Box: rapid.IntRange(0, 7).Draw(t, "tbox"), N: rapid.IntRange(0, 20).Draw(t, "tn"), Big: rapid.Bool().Draw(t, "big")}
		c.Masks = rapid.SliceOfN(rapid.Uint16(), 3, 3).Draw(t, "masks")
		if c.Target.K == "add" && rapid.IntRange(0, 3).Draw(t, "recap") == 0 {
			c.Cap2 = rapid.SampledFrom([]int{1, 2}).Draw(t, "cap2")
			// some mail in the target mailbox, so that the lowered cap finds a backlog
			for i := 0; i < 3; i++ {
				c.Prefix = append(c.Prefix, hx.Op{K: "add", Box: c.Target.Box, Msg: mg.Draw(t, "backlog")})
			}
		}
		if c.Cap > 0 && c.Target.K == "add" && rapid.IntRange(0, 2).Draw(t, "fill") > 0 {
			// fill the target mailbox to its cap so that the delivery has to evict
			for i := 0; i < c.Cap; i++ {
				c.Prefix = append(c.Prefix, hx.Op{K: "add", Box: c.Target.Box, Msg: mg.Draw(t, "fillmsg")})
			}
		}
		return c
	},
	Run: run,
}

func copyDir(src, dst string) error {
	return filepath.Walk(src, func(p string, info os.FileInfo, err error) error {
		if err != nil {
			if os.IsNotExist(err) {
				return nil
			}
			return err
		}
		rel, _ := filepath.Rel(src, p)
		out := filepath.Join(dst, rel)
		if info.IsDir() {
			return os.MkdirAll(out, 0o770)
		}
		in, err := os.Open(p)
		if err != nil {
			if os.IsNotExist(err) {
				return nil
			}
			return err
		}
		defer in.Close()
		f, err := os.Create(out)
		if err != nil {
			return err
		}
		defer f.Close()
		_, err = io.Copy(f, in)
		return err
	})
}

type snap struct {
	dir  string
	site string
	note string
	mid  bool // strictly inside the operation or inside a write
}

// view is a mailbox as a reader sees it: ids, seen flags, content.
type msgView struct {
	id   string
	seen bool
	body []byte
}

func viewOf(m *hx.Model, box string) []msgView {
	var v []msgView
	for _, x := range m.List(box) {
		v = append(v, msgView{x.ID, x.Seen, x.Body})
	}
	return v
}

func readView(st storage.Store, box string) ([]msgView, error) {
	ms, err := st.GetMessages(box)
	if err != nil {
		return nil, fmt.Errorf("GetMessages(%q): %v", box, err)
	}
	var v []msgView
	for _, m := range ms {
		b, err := hx.ReadSource(m)
		if err != nil {
			return nil, fmt.Errorf("mailbox %q lists message %s but its content cannot be read: %v", box, m.ID(), err)
		}
		if int64(len(b)) != m.Size() {
			return nil, fmt.Errorf("mailbox %q message %s: size %d but %d bytes of content", box, m.ID(), m.Size(), len(b))
		}
		v = append(v, msgView{m.ID(), m.Seen(), b})
	}
	return v, nil
}

func sameView(a, b []msgView) bool {
	if len(a) != len(b) {
		return false
	}
	for i := range a {
		if a[i].id != b[i].id || a[i].seen != b[i].seen || !bytes.Equal(a[i].body, b[i].body) {
			return false
		}
	}
	return true
}

func ids(v []msgView) string {
	var s []string
	for _, m := range v {
		x := m.id
		if m.seen {
			x += "*"
		}
		s = append(s, x)
	}
	return "[" + strings.Join(s, " ") + "]"
}

func run(c Case) *hx.Outcome {
	o := &hx.Outcome{}
	root := hx.TempDir()
	defer os.RemoveAll(root)
	work := filepath.Join(root, "work")
	_ = os.MkdirAll(work, 0o770)
	sys := &hx.Sys{Name: "file", Store: hx.NewFile(extension.NewHost(), work, c.Cap), Model: hx.NewModel(c.Cap, 0), Boxes: c.Boxes}
	for _, op := range c.Prefix {
		sys.Apply(pid, op, o)
	}
	if o.Failed() {
		return o
	}
	box := c.Boxes[c.Target.Box%len(c.Boxes)]
	pre := map[string][]msgView{}
	for _, b := range c.Boxes {
		pre[b] = viewOf(sys.Model, b)
	}
	kind := c.Target.K
	live := sys.Model.List(box)
	if (kind == "seen" || kind == "remove") && len(live) == 0 {
		kind = "add"
	}
	capT := c.Cap // the cap in force for the target operation and after the crash
	if c.Cap2 > 0 && kind == "add" {
		capT = c.Cap2
		sys.Store = hx.NewFile(extension.NewHost(), work, capT) // the restart with the new setting
		sys.Model.Cap = capT
	}
	label := kind
	if kind == "add" && capT > 0 && len(live) >= capT {
		label = "add-at-cap"
		if len(live) > capT {
			label = "add-over-lowered-cap"
		}
	}
	if kind == "remove" && len(live) == 1 {
		label = "remove-last"
	}
	// run the target on the working tree, snapshotting at every crash point
	var snaps []snap
	calls := 0
	verifhook.SetCrash(func(site, path string) {
		calls++
		d := filepath.Join(root, fmt.Sprintf("s%03d", len(snaps)))
		if err := copyDir(work, d); err != nil {
			return
		}
		snaps = append(snaps, snap{dir: d, site: site, mid: true})
		rel, rerr := filepath.Rel(work, path)
		if rerr != nil {
			return
		}
		// torn write of the file being written
		if strings.HasSuffix(site, ".copied") || strings.HasSuffix(site, ".flushed") || strings.HasSuffix(site, ".encoded") || strings.HasSuffix(site, ".created") {
			if fi, err := os.Stat(filepath.Join(d, rel)); err == nil && !fi.IsDir() {
				lens := map[int64]bool{0: true, 1: true, fi.Size() - 1: true}
				for l := int64(4096); l < fi.Size(); l += 4096 {
					lens[l] = true
				}
				var ll []int64
				for l := range lens {
					if l >= 0 && l < fi.Size() {
						ll = append(ll, l)
					}
				}
				sort.Slice(ll, func(i, j int) bool { return ll[i] < ll[j] })
				for _, l := range ll {
					d2 := filepath.Join(root, fmt.Sprintf("s%03d", len(snaps)))
					if copyDir(d, d2) == nil && os.Truncate(filepath.Join(d2, rel), l) == nil {
						snaps = append(snaps, snap{dir: d2, site: site, note: fmt.Sprintf("file torn at %d of %d bytes", l, fi.Size()), mid: true})
					}
				}
			}
		}
		// interrupted RemoveAll: any subset of the directory's entries may be gone
		if site == "rmdir.before-removeall" {
			ents, _ := os.ReadDir(filepath.Join(d, rel))
			for _, mask := range c.Masks {
				d2 := filepath.Join(root, fmt.Sprintf("s%03d", len(snaps)))
				if copyDir(d, d2) != nil {
					continue
				}
				var gone []string
				for i, e := range ents {
					if mask&(1<<(uint(i)%16)) != 0 {
						_ = os.Remove(filepath.Join(d2, rel, e.Name()))
						gone = append(gone, e.Name())
					}
				}
				snaps = append(snaps, snap{dir: d2, site: site, note: fmt.Sprintf("RemoveAll interrupted after removing %v", gone), mid: true})
			}
		}
	})
	var terr error
	switch kind {
	case "add":
		n := 300
		if c.Target.Big {
			n = 9000
		}
		body := bytes.Repeat([]byte("T"), n)
		sys.Apply(pid, hx.Op{K: "add", Box: c.Target.Box, Msg: &hx.MsgSpec{Subject: "target", Body: body, To: []hx.Addr{}}}, o)
	case "seen":
		id := live[c.Target.N%len(live)].ID
		terr = sys.Store.MarkSeen(box, id)
		sys.Model.MarkSeen(box, id)
	case "remove":
		id := live[c.Target.N%len(live)].ID
		terr = sys.Store.RemoveMessage(box, id)
		sys.Model.Remove(box, id)
	case "purge":
		terr = sys.Store.PurgeMessages(box)
		sys.Model.Purge(box)
	}
	verifhook.SetCrash(nil)
	if terr != nil || o.Failed() {
		o.Failf(pid+":harness", "target %s failed: %v", label, terr)
		return o
	}
	post := viewOf(sys.Model, box)
	if len(snaps) > 0 {
		snaps[0].mid = snaps[0].note != ""
	}
	nt := 0
	for si, s := range snaps {
		where := fmt.Sprintf("target %s on %q, crash at point %d/%d %s %s", label, box, si+1, len(snaps), s.site, s.note)
		st := hx.NewFile(extension.NewHost(), s.dir, capT)
		// what a visit of the restarted store shows: mailbox -> ids in visit order, and how often
		// a mailbox was handed to the visitor
		visited, visits := map[string][]string{}, map[string]int{}
		if err := st.VisitMailboxes(func(ms []storage.Message) bool {
			if len(ms) > 0 {
				visits[ms[0].Mailbox()]++
			}
			for _, m := range ms {
				visited[m.Mailbox()] = append(visited[m.Mailbox()], m.ID())
			}
			return true
		}); err != nil {
			o.Failf(pid+":unreadable-after-crash", "%s: VisitMailboxes on the restarted store: %v", where, err)
			break
		}
		bad := false
		for _, b := range c.Boxes {
			got, err := readView(st, b)
			if err != nil {
				o.Failf(pid+":unreadable-after-crash", "%s: %v", where, err)
				bad = true
				break
			}
			// "listed and visited": the visit hands over each mailbox that lists mail once, with
			// the messages the listing shows (a mailbox left empty may be skipped or shown empty)
			var listed []string
			for _, m := range got {
				listed = append(listed, m.id)
			}
			if len(listed) > 0 && (visits[b] != 1 || strings.Join(visited[b], " ") != strings.Join(listed, " ")) {
				o.Failf(pid+":visit-differs-from-listing", "%s: mailbox %q lists %v but a visit of all mailboxes showed it %d time(s) with %v", where, b, listed, visits[b], visited[b])
				bad = true
				break
			}
			if b != box {
				if !sameView(got, pre[b]) {
					o.Failf(pid+":untouched-mailbox-changed", "%s: mailbox %q not touched by the operation reads %s, before the crash %s", where, b, ids(got), ids(pre[b]))
					bad = true
				}
				continue
			}
			if !sameView(got, pre[b]) && !sameView(got, post) {
				key := "not-all-or-nothing"
				if label == "add-at-cap" {
					key = "cap-eviction-not-atomic"
				}
				o.Failf(pid+":"+key, "%s: mailbox reads %s, which is neither the state before %s nor after %s", where, ids(got), ids(pre[b]), ids(post))
				bad = true
			}
		}
		if !bad {
			id, err := st.AddMessage(hx.NewDelivery(box, nil, nil, hx.BaseTime, "after crash", []byte("new mail")))
			if err != nil {
				o.Failf(pid+":no-delivery-after-crash", "%s: AddMessage to the affected mailbox: %v", where, err)
			} else if m, err := st.GetMessage(box, id); err != nil || m == nil {
				o.Failf(pid+":no-delivery-after-crash", "%s: message delivered after restart not retrievable: %v", where, err)
			}
		}
		if s.mid {
			nt++
		}
		_ = os.RemoveAll(s.dir)
		if o.Failed() {
			break
		}
	}
	o.Class("target " + label)
	o.NonTrivial = nt > 0
	hx.AddEvaluations("crash", len(snaps), nt, fmt.Sprintf("%v", c))
	return o
}

func TestProp(t *testing.T)    { prop.Check(t); propKill.Check(t) }
func TestRegress(t *testing.T) { prop.Regress(t); propKill.Regress(t) }
func TestReplay(t *testing.T) {
	if *hx.ReplayPath == "" {
		t.Skip("no -replay")
	}
	if !prop.Replay(t, *hx.ReplayPath) && !propKill.Replay(t, *hx.ReplayPath) {
		t.Fatalf("no prop matches %s", *hx.ReplayPath)
	}
}
func TestMain(m *testing.M) {
	if spec := os.Getenv("VERIF_C11_CHILD"); spec != "" {
		runChild(spec) // the traced child of the 'kill' sub-check: one store operation, then exit
	}
	hx.Main(m)
}
