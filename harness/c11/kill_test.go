package c11

import (
	"bytes"
	"encoding/json"
	"fmt"
	"os"
	"os/exec"
	"path/filepath"
	"strings"
	"sync"
	"syscall"

	"github.com/inbucket/inbucket/v3/pkg/extension"
	"github.com/inbucket/inbucket/v3/pkg/storage"
	"pgregory.net/rapid"
	"verif/harness/hx"
)

// ---- kill: the process dies before its n-th system call, whichever that is ----
//
// The crash sub-check stops the operation where the verif hooks are. This one needs no hook:
// the target operation runs in a child process under strace, which kills it on entry to the
// n-th unlinkat / renameat / mkdirat / openat / write, for every n until the operation
// completes. Whatever the code does between two hooks is reached as well.

// childSpec is what the child process is asked to do (env VERIF_C11_CHILD).
type childSpec struct {
	Dir  string `json:"dir"`
	Cap  int    `json:"cap"`
	K    string `json:"k"` // add | seen | remove | purge
	Box  string `json:"box"`
	ID   string `json:"id,omitempty"`
	Size int    `json:"size,omitempty"`
}

const targetSubject = "kill-target"

// runChild is the child process: one operation on the store, exit status 0 when it completed.
func runChild(spec string) {
	var c childSpec
	if err := json.Unmarshal([]byte(spec), &c); err != nil {
		os.Exit(4)
	}
	st := hx.NewFile(extension.NewHost(), c.Dir, c.Cap)
	var err error
	switch c.K {
	case "add":
		_, err = st.AddMessage(hx.NewDelivery(c.Box, nil, nil, hx.BaseTime, targetSubject, bytes.Repeat([]byte("K"), c.Size)))
	case "seen":
		err = st.MarkSeen(c.Box, c.ID)
	case "remove":
		err = st.RemoveMessage(c.Box, c.ID)
	case "purge":
		err = st.PurgeMessages(c.Box)
	}
	if err != nil {
		os.Exit(3)
	}
	os.Exit(0)
}

var (
	straceOnce sync.Once
	straceOK   bool
)

// haveStrace reports whether strace can trace and kill a child here.
func haveStrace() bool {
	straceOnce.Do(func() {
		p, err := exec.LookPath("strace")
		if err != nil {
			return
		}
		straceOK = exec.Command(p, "-f", "-qq", "-o", "/dev/null", "-e", "trace=unlinkat", "true").Run() == nil
	})
	return straceOK
}

type KCase struct {
	Cap    int      `json:"cap"`
	Boxes  []string `json:"boxes"`
	Prefix []hx.Op  `json:"prefix"`
	Target Target   `json:"target"`
	Cap2   int      `json:"cap2,omitempty"` // as in Case
}

// kview is a mailbox as a reader sees it, without ids (the child issues the new one).
type kmsg struct {
	subject string
	seen    bool
	body    string
}

func kread(st storage.Store, box string) ([]kmsg, error) {
	ms, err := st.GetMessages(box)
	if err != nil {
		return nil, fmt.Errorf("GetMessages(%q): %v", box, err)
	}
	var v []kmsg
	for _, m := range ms {
		b, err := hx.ReadSource(m)
		if err != nil {
			return nil, fmt.Errorf("mailbox %q lists message %s but its content cannot be read: %v", box, m.ID(), err)
		}
		if int64(len(b)) != m.Size() {
			return nil, fmt.Errorf("mailbox %q message %s: size %d but %d bytes of content", box, m.ID(), m.Size(), len(b))
		}
		v = append(v, kmsg{m.Subject(), m.Seen(), string(b)})
	}
	return v, nil
}

func kshow(v []kmsg) string {
	var s []string
	for _, m := range v {
		x := fmt.Sprintf("%s/%dB", m.subject, len(m.body))
		if m.seen {
			x += "*"
		}
		s = append(s, x)
	}
	return "[" + strings.Join(s, " ") + "]"
}

func ksame(a, b []kmsg) bool {
	if len(a) != len(b) {
		return false
	}
	for i := range a {
		if a[i] != b[i] {
			return false
		}
	}
	return true
}

var killFamilies = []string{"unlinkat", "renameat,renameat2,rename", "mkdirat,mkdir", "openat", "write"}

var propKill = hx.Prop[KCase]{
	ID: pid, Name: "kill",
	Rule: "prefix history as in 'crash', then the target operation (add, add at the cap, mark-seen, remove, remove-last, purge) runs in a child process under " +
		"strace, which kills it with SIGKILL on entry to its n-th unlinkat / renameat / mkdirat / openat / write, for every n until the operation completes " +
		"(no hook involved: every file-system mutation the code performs is a crash point); a fresh file.New on what the dead process left must visit and " +
		"list every mailbox, show every untouched mailbox unchanged with full content, show the target's mailbox exactly in its before or its after state, " +
		"and accept a new delivery; each (operation, syscall, n) is one evaluation; non-trivial = the child was killed after its first mutation; " +
		"skipped (0 evaluations) where strace cannot trace",
	Quick: 20, Thorough: 200,
	Gen: func(t *rapid.T) KCase {
		c := prop.Gen(t)
		return KCase{Cap: c.Cap, Boxes: c.Boxes, Prefix: c.Prefix, Target: c.Target, Cap2: c.Cap2}
	},
	Run: runKill,
}

func runKill(c KCase) *hx.Outcome {
	o := &hx.Outcome{}
	if !haveStrace() {
		o.Class("strace cannot trace here: skipped")
		return o
	}
	root := hx.TempDir()
	defer os.RemoveAll(root)
	work := filepath.Join(root, "work")
	_ = os.MkdirAll(work, 0o770)
	sys := &hx.Sys{Name: "file", Store: hx.NewFile(extension.NewHost(), work, c.Cap), Model: hx.NewModel(c.Cap, 0), Boxes: c.Boxes}
	for _, op := range c.Prefix {
		sys.Apply(pid, op, o)
	}
	if o.Failed() {
		return o
	}
	box := c.Boxes[c.Target.Box%len(c.Boxes)]
	pre := map[string][]kmsg{}
	for _, b := range c.Boxes {
		v, err := kread(sys.Store, b)
		if err != nil {
			o.Failf(pid+":harness", "before the target: %v", err)
			return o
		}
		pre[b] = v
	}
	kind := c.Target.K
	live := sys.Model.List(box)
	if (kind == "seen" || kind == "remove") && len(live) == 0 {
		kind = "add"
	}
	capT := c.Cap
	if c.Cap2 > 0 && kind == "add" {
		capT = c.Cap2 // the server was restarted with another cap before this delivery
	}
	spec := childSpec{Cap: capT, K: kind, Box: box}
	post := append([]kmsg{}, pre[box]...)
	label := kind
	switch kind {
	case "add":
		spec.Size = 300
		if c.Target.Big {
			spec.Size = 9000
		}
		post = append(post, kmsg{targetSubject, false, strings.Repeat("K", spec.Size)})
		if capT > 0 && len(post) > capT {
			if len(post) > capT+1 {
				label = "add-over-lowered-cap"
			} else {
				label = "add-at-cap"
			}
			post = post[len(post)-capT:]
		}
	case "seen":
		j := c.Target.N % len(live)
		spec.ID = live[j].ID
		post[j].seen = true
	case "remove":
		j := c.Target.N % len(live)
		spec.ID = live[j].ID
		post = append(post[:j:j], post[j+1:]...)
		if len(live) == 1 {
			label = "remove-last"
		}
	case "purge":
		post = nil
	}
	self, err := os.Executable()
	if err != nil {
		o.Failf(pid+":harness", "os.Executable: %v", err)
		return o
	}
	evals, nt := 0, 0
	for _, fam := range killFamilies {
		for n := 1; n <= 60; n++ {
			d := filepath.Join(root, "k")
			_ = os.RemoveAll(d)
			if err := copyDir(work, d); err != nil {
				o.Failf(pid+":harness", "copy: %v", err)
				return o
			}
			spec.Dir = d
			sj, _ := json.Marshal(spec)
			cmd := exec.Command("strace", "-f", "-qq", "-o", "/dev/null", "-e", "trace="+fam, "-e", fmt.Sprintf("inject=%s:signal=SIGKILL:when=%d", fam, n), self)
			cmd.Env = append(os.Environ(), "VERIF_C11_CHILD="+string(sj), "GOMAXPROCS=1")
			err := cmd.Run()
			killed := false
			if err != nil {
				if ee, ok := err.(*exec.ExitError); ok {
					if ws, ok := ee.Sys().(syscall.WaitStatus); ok && (ws.Signaled() || ws.ExitStatus() == 137) {
						killed = true
					} else {
						o.Failf(pid+":harness", "child for %s ended with %v", label, err)
						return o
					}
				} else {
					o.Failf(pid+":harness", "strace: %v", err)
					return o
				}
			}
			if !killed {
				break // the operation needed fewer than n calls of this family: it completed
			}
			evals++
			where := fmt.Sprintf("target %s on %q, process killed on entry to its %d. %s", label, box, n, strings.SplitN(fam, ",", 2)[0])
			st := hx.NewFile(extension.NewHost(), d, capT)
			if err := st.VisitMailboxes(func([]storage.Message) bool { return true }); err != nil {
				o.Failf(pid+":unreadable-after-crash", "%s: VisitMailboxes on the restarted store: %v", where, err)
				return o
			}
			for _, b := range c.Boxes {
				got, err := kread(st, b)
				if err != nil {
					o.Failf(pid+":unreadable-after-crash", "%s: %v", where, err)
					return o
				}
				if b != box {
					if !ksame(got, pre[b]) {
						o.Failf(pid+":untouched-mailbox-changed", "%s: mailbox %q not touched by the operation reads %s, before the crash %s", where, b, kshow(got), kshow(pre[b]))
						return o
					}
					continue
				}
				if ksame(got, post) && !ksame(post, pre[b]) {
					nt++
				}
				if !ksame(got, pre[b]) && !ksame(got, post) {
					o.Failf(pid+":not-all-or-nothing", "%s: mailbox reads %s, which is neither the state before %s nor after %s", where, kshow(got), kshow(pre[b]), kshow(post))
					return o
				}
			}
			id, err := st.AddMessage(hx.NewDelivery(box, nil, nil, hx.BaseTime, "after crash", []byte("new mail")))
			if err != nil {
				o.Failf(pid+":no-delivery-after-crash", "%s: AddMessage to the affected mailbox: %v", where, err)
				return o
			} else if m, err := st.GetMessage(box, id); err != nil || m == nil {
				o.Failf(pid+":no-delivery-after-crash", "%s: message delivered after restart not retrievable: %v", where, err)
				return o
			}
		}
	}
	o.Class("target " + label)
	o.NonTrivial = nt > 0
	hx.AddEvaluations("kill", evals, nt, fmt.Sprintf("%v", c))
	return o
}

var _ = rapid.Check
