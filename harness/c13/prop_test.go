package c13

import (
	"bytes"
	"fmt"
	"strconv"
	"strings"
	"sync/atomic"
	"testing"
	"time"

	"github.com/inbucket/inbucket/v3/pkg/storage"
	"pgregory.net/rapid"
	"verif/harness/hx"
)

const pid = "C13"

// Step is a client line or an external store mutation between two commands.
type Step struct {
	K    string `json:"k"`              // cmd | xadd | xremove | xpurge | xother
	Line string `json:"line,omitempty"` // cmd: the line sent
	N    int    `json:"n,omitempty"`    // xremove: index into the current store content; xadd: body size class
}

type Case struct {
	Backend string `json:"backend"`
	Sizes   []int  `json:"sizes"` // initial messages (body line counts)
	Steps   []Step `json:"steps"`
	End     string `json:"end"` // quit | drop
	// Login is how the session spells the mailbox in USER/APOP ("" = "box"): any spelling the
	// naming rule maps to "box" opens the same mailbox.
	Login string `json:"login,omitempty"`
	// Assembled: the world is what server.FullAssembly wires together (see hx.Cfg.Assembled)
	Assembled bool `json:"assembled,omitempty"`
}

type smsg struct {
	id   string
	size int64
	body []byte
	uid  int64 // identity of the delivery (ids could, wrongly, repeat)
}

var uidSeq atomic.Int64

func bodyOf(n int) []byte {
	var b bytes.Buffer
	b.WriteString("Subject: m\r\n\r\n")
	for i := 0; i < n; i++ {
		fmt.Fprintf(&b, "%sline %d of %d\r\n", []string{"", ".", ".."}[i%3], i, n)
	}
	return b.Bytes()
}

var argGen = rapid.Custom(func(t *rapid.T) string {
	return rapid.SampledFrom([]string{"1", "1", "1", "2", "2", "2", "3", "3", "4", "5", "6", "8", "9", "0", "-1", "99999999999", "x", "1 2", "", "01", "2147483648"}).Draw(t, "arg")
})

var stepGen = rapid.Custom(func(t *rapid.T) Step {
	switch rapid.IntRange(0, 24).Draw(t, "kind") {
	case 0:
		return Step{K: "xadd", N: rapid.IntRange(0, 5).Draw(t, "n")}
	case 1:
		return Step{K: "xremove", N: rapid.IntRange(0, 7).Draw(t, "n")}
	case 2:
		if rapid.Bool().Draw(t, "purge") {
			return Step{K: "xpurge"}
		}
		return Step{K: "xother"}
	case 3, 4:
		return Step{K: "cmd", Line: rapid.SampledFrom([]string{"USER box", "PASS x", "APOP box 0123", "USER", "APOP box", "PASS", "user box", "pass y"}).Draw(t, "auth")}
	case 5:
		return Step{K: "cmd", Line: rapid.SampledFrom([]string{"CAPA", "NOOP", "STLS", "XYZZ", "", "  ", "noop", "NOOP  x", "STAT x", "QUIT now"}).Draw(t, "misc")}
	case 6:
		return Step{K: "cmd", Line: "STAT"}
	case 7:
		if rapid.IntRange(0, 2).Draw(t, "longline") == 0 {
			// one line of more than 4096 (8192) bytes whose end would be a command of its own
			n := rapid.SampledFrom([]int{4096, 4096, 8192, 5000}).Draw(t, "cutat")
			head := rapid.SampledFrom([]string{"NOOP ", "XYZZ ", "STAT "}).Draw(t, "lhead")
			tail := rapid.SampledFrom([]string{"QUIT", "DELE 1", "DELE 2", "RSET", "STAT"}).Draw(t, "ltail")
			return Step{K: "cmd", Line: head + strings.Repeat("x", n-len(head)) + tail}
		}
		return Step{K: "cmd", Line: "STAT"}
	case 8, 9:
		return Step{K: "cmd", Line: strings.TrimSpace("LIST " + rapid.SampledFrom([]string{"", "", argGen.Draw(t, "a")}).Draw(t, "la"))}
	case 10, 11:
		return Step{K: "cmd", Line: strings.TrimSpace("UIDL " + rapid.SampledFrom([]string{"", "", argGen.Draw(t, "a")}).Draw(t, "ua"))}
	case 12, 13, 14, 15, 16:
		return Step{K: "cmd", Line: strings.TrimSpace(rapid.SampledFrom([]string{"DELE ", "DELE ", "dele "}).Draw(t, "d") + argGen.Draw(t, "a"))}
	case 17, 18:
		return Step{K: "cmd", Line: strings.TrimSpace("RETR " + argGen.Draw(t, "a"))}
	case 19, 20:
		return Step{K: "cmd", Line: strings.TrimSpace("TOP " + argGen.Draw(t, "a") + " " + rapid.SampledFrom([]string{"0", "1", "100", "-1", "x", ""}).Draw(t, "tl"))}
	case 21, 22:
		return Step{K: "cmd", Line: "RSET"}
	}
	return Step{K: "cmd", Line: "STAT"}
})

var prop = hx.Prop[Case]{
	ID: pid, Name: "session",
	Rule: "mailbox of 0-8 messages on mem/file; 1-40 steps from a grammar of USER/PASS/APOP in any order and arity (the mailbox spelled box, Box, box+pop, box@a.test ...), STAT, LIST/UIDL/DELE/" +
		"RETR/TOP with valid, repeated, deleted, out-of-range, negative, huge, non-numeric, extra and missing arguments, RSET, NOOP, CAPA, " +
		"STLS, unknown verbs, empty lines, interleaved with external deliveries/removals through the store; ends with QUIT or a dropped " +
		"connection; oracle = reference model of the login snapshot and deletion marks (STAT/LIST/UIDL agree, numbers/sizes/ids fixed, RSET " +
		"unmarks, store afterwards = pre + external adds - external removes - marked-at-QUIT iff QUIT in TRANSACTION), one well-formed reply " +
		"per line; non-trivial = logs in, marks >=1 message, and has RSET or an external mutation or ends without QUIT",
	Quick: 1000, Thorough: 4000,
	Gen: func(t *rapid.T) Case {
		c := Case{
			Backend: rapid.SampledFrom([]string{"mem", "file"}).Draw(t, "backend"),
			Sizes:   rapid.SliceOfN(rapid.IntRange(0, 6), rapid.SampledFrom([]int{0, 2, 3, 3}).Draw(t, "minmsgs"), 8).Draw(t, "sizes"),
			End:     rapid.SampledFrom([]string{"quit", "quit", "drop", "quitdrop"}).Draw(t, "end"),
			Login:   rapid.SampledFrom([]string{"", "", "", "Box", "BOX", "box+pop", "box@a.test", "bOx+a+b@A.Test"}).Draw(t, "loginname"),
		}
		c.Assembled = rapid.IntRange(0, 3).Draw(t, "assembled") == 0
		// most sessions log in early
		if rapid.IntRange(0, 4).Draw(t, "login") > 0 {
			c.Steps = append(c.Steps, Step{K: "cmd", Line: "USER box"}, Step{K: "cmd", Line: "PASS x"})
		}
		if rapid.IntRange(0, 7).Draw(t, "replaced") == 0 && len(c.Sizes) > 0 {
			// the mailbox is emptied and refilled through another interface while the session is
			// open; the session then deletes by its old numbers: only snapshot messages may go
			c.Steps = []Step{{K: "cmd", Line: "USER box"}, {K: "cmd", Line: "PASS x"}, {K: "xpurge"}}
			for i := rapid.IntRange(1, 4).Draw(t, "refill"); i > 0; i-- {
				c.Steps = append(c.Steps, Step{K: "xadd", N: rapid.IntRange(0, 5).Draw(t, "rn")})
			}
			for i := rapid.IntRange(1, 3).Draw(t, "deles"); i > 0; i-- {
				c.Steps = append(c.Steps, Step{K: "cmd", Line: fmt.Sprintf("DELE %d", rapid.IntRange(1, len(c.Sizes)).Draw(t, "dn"))})
			}
			c.End = "quit"
		}
		c.Steps = append(c.Steps, rapid.SliceOfN(stepGen, 1, 38).Draw(t, "steps")...)
		return c
	},
	Run: run,
}

// refBox is the documented (local naming) mailbox of a login name: the local part, lower-cased,
// cut at the first '+'.
func refBox(login string) string {
	l := login
	if i := strings.LastIndexByte(l, '@'); i >= 0 {
		l = l[:i]
	}
	l = strings.ToLower(l)
	if i := strings.IndexByte(l, '+'); i >= 0 {
		l = l[:i]
	}
	return l
}

func deliver(st storage.Store, box string, body []byte) (smsg, error) {
	id, err := st.AddMessage(hx.NewDelivery(box, nil, nil, hx.BaseTime, "m", body))
	return smsg{id: id, size: int64(len(body)), body: body, uid: uidSeq.Add(1)}, err
}

func run(c Case) *hx.Outcome {
	o := &hx.Outcome{}
	cfg := hx.DefaultCfg()
	cfg.Backend, cfg.NoHTTP, cfg.Assembled = c.Backend, true, c.Assembled
	if c.Assembled {
		o.Class("world wired by server.FullAssembly")
	}
	w, err := hx.NewWorld(cfg)
	if err != nil {
		o.Failf(pid+":harness", "world: %v", err)
		return o
	}
	defer w.Close()
	var content []smsg // what the store holds for "box", oldest first
	for _, n := range c.Sizes {
		m, err := deliver(w.Store, "box", bodyOf(n))
		if err != nil {
			o.Failf(pid+":harness", "deliver: %v", err)
			return o
		}
		content = append(content, m)
	}
	pc, greet, err := w.DialPOP3()
	if err != nil || !greet.OK || !greet.WellFormed {
		o.Failf(pid+":greeting", "%v %v", greet, err)
		return o
	}
	user := ""
	trans := false
	var snap []smsg
	var marked []bool
	everMarked, sawRset, sawExt := false, false, false
	quit := false
	unmarked := func() (n int, octets int64) {
		for i, m := range snap {
			if !marked[i] {
				n++
				octets += m.size
			}
		}
		return
	}
	login := func() {
		snap = append([]smsg{}, content...)
		marked = make([]bool, len(snap))
		trans = true
	}
	// msgNum validates a message-number argument against the snapshot: 0 = invalid
	msgNum := func(a string) int {
		n, err := strconv.ParseInt(a, 10, 32)
		if err != nil || n < 1 || int(n) > len(snap) {
			return 0
		}
		return int(n)
	}
	for i, st := range c.Steps {
		where := fmt.Sprintf("step %d %s %q", i, st.K, st.Line)
		switch st.K {
		case "xadd":
			m, err := deliver(w.Store, "box", bodyOf(st.N))
			if err != nil {
				o.Failf(pid+":harness", "deliver: %v", err)
				return o
			}
			content = append(content, m)
			sawExt = sawExt || trans
			continue
		case "xremove":
			if len(content) > 0 {
				j := st.N % len(content)
				if err := w.Store.RemoveMessage("box", content[j].id); err != nil {
					o.Failf(pid+":harness", "external remove: %v", err)
					return o
				}
				content = append(append([]smsg{}, content[:j]...), content[j+1:]...)
				sawExt = sawExt || trans
			}
			continue
		case "xpurge":
			// the mailbox emptied through another interface; later deliveries get new identities
			if err := w.Store.PurgeMessages("box"); err != nil {
				o.Failf(pid+":harness", "external purge: %v", err)
				return o
			}
			if len(content) > 0 {
				sawExt = sawExt || trans
			}
			content = nil
			continue
		case "xother":
			_, _ = deliver(w.Store, "elsewhere", bodyOf(1))
			continue
		}
		if c.Login != "" {
			if f := strings.Split(st.Line, " "); len(f) >= 2 && f[1] == "box" && (strings.EqualFold(f[0], "USER") || strings.EqualFold(f[0], "APOP")) {
				f[1] = c.Login
				st.Line = strings.Join(f, " ")
				where = fmt.Sprintf("step %d %s %q", i, st.K, st.Line)
			}
		}
		f := strings.Split(st.Line, " ")
		verb := strings.ToUpper(f[0])
		args := f[1:]
		multiOK := verb == "CAPA" || (trans && ((verb == "LIST" || verb == "UIDL") && len(args) == 0 || verb == "RETR" || verb == "TOP"))
		r, err := pc.Cmd(st.Line, multiOK)
		if err != nil {
			o.Failf(pid+":no-reply", "%s: %v (reply so far %q, %d lines): a reply that is not one well-formed (terminated) response", where, err, r.Status, len(r.Lines))
			break
		}
		if !r.WellFormed {
			o.Failf(pid+":malformed-reply", "%s: %q", where, r.Status)
			break
		}
		expectOK := func(want bool, why string) {
			if r.OK != want {
				o.Failf(pid+":wrong-status", "%s: answered %q, expected %s: %s", where, r.Status, map[bool]string{true: "+OK", false: "-ERR"}[want], why)
			}
		}
		switch {
		case verb == "CAPA" || verb == "NOOP" && trans && len(args) == 0:
			expectOK(true, "always valid here")
		case !trans:
			switch verb {
			case "USER":
				if len(args) >= 1 && args[0] != "" {
					expectOK(true, "USER with a name")
					if r.OK {
						user = args[0]
					}
				}
			case "PASS":
				if user == "" {
					expectOK(false, "PASS before USER")
				} else if r.OK {
					login()
				} else {
					expectOK(true, "PASS after USER")
				}
			case "APOP":
				if len(args) == 2 && args[0] != "" {
					expectOK(true, "APOP name digest")
					if r.OK {
						user = args[0]
						login()
					}
				} else {
					expectOK(false, "APOP needs two arguments")
				}
			case "QUIT":
				if len(args) == 0 {
					expectOK(true, "QUIT")
				}
				if r.OK {
					quit = true // with a stray argument the statement fixes nothing: follow the reply
				}
			case "STAT", "LIST", "UIDL", "DELE", "RETR", "TOP", "RSET":
				expectOK(false, "transaction command before login")
			}
			if trans && refBox(user) != "box" {
				// logged into another mailbox: content is that mailbox's (empty)
				snap, marked = nil, nil
			}
		default: // TRANSACTION
			switch verb {
			case "STAT":
				if len(args) == 0 {
					n, oct := unmarked()
					if want := fmt.Sprintf("+OK %d %d", n, oct); r.Status != want {
						o.Failf(pid+":stat", "%s: %q, expected %q", where, r.Status, want)
					}
				}
			case "LIST", "UIDL":
				val := func(m smsg) string {
					if verb == "LIST" {
						return strconv.FormatInt(m.size, 10)
					}
					return m.id
				}
				if len(args) == 0 {
					expectOK(true, "listing")
					var want []string
					for j, m := range snap {
						if !marked[j] {
							want = append(want, fmt.Sprintf("%d %s", j+1, val(m)))
						}
					}
					if strings.Join(r.Lines, "|") != strings.Join(want, "|") {
						o.Failf(pid+":listing", "%s: lines %q, expected %q", where, r.Lines, want)
					}
				} else if len(args) == 1 {
					n := msgNum(args[0])
					if n == 0 || marked[n-1] {
						expectOK(false, "no such (or deleted) message")
					} else if want := fmt.Sprintf("+OK %d %s", n, val(snap[n-1])); r.Status != want {
						o.Failf(pid+":listing", "%s: %q, expected %q", where, r.Status, want)
					}
				} else {
					expectOK(false, "too many arguments")
				}
			case "DELE":
				n := 0
				if len(args) == 1 {
					n = msgNum(args[0])
				}
				if n == 0 || marked[n-1] {
					expectOK(false, "no such message / already deleted / bad arguments")
				} else {
					expectOK(true, "unmarked message")
					if r.OK {
						marked[n-1] = true
						everMarked = true
					}
				}
			case "RETR", "TOP":
				n := 0
				lines := -1
				if verb == "RETR" && len(args) == 1 {
					n = msgNum(args[0])
				}
				if verb == "TOP" && len(args) == 2 {
					n = msgNum(args[0])
					if l, err := strconv.ParseInt(args[1], 10, 32); err == nil && l >= 0 {
						lines = int(l)
					} else {
						n = 0
					}
				}
				if n == 0 {
					expectOK(false, "bad message number or arguments")
				} else if !marked[n-1] {
					stillThere := false
					for _, m := range content {
						if m.id == snap[n-1].id {
							stillThere = true
						}
					}
					if stillThere {
						expectOK(true, "retrievable message")
						if r.OK {
							want := hx.Canon(snap[n-1].body)
							if verb == "TOP" {
								want = topOf(want, lines)
							}
							if got := hx.Canon(hx.JoinLines(r.Lines)); !bytes.Equal(got, want) {
								o.Failf(pid+":content", "%s: returned %q, expected %q", where, got, want)
							}
						}
					}
				}
			case "RSET":
				if len(args) == 0 {
					expectOK(true, "RSET")
					for j := range marked {
						marked[j] = false
					}
					sawRset = true
				}
			case "QUIT":
				if len(args) == 0 {
					expectOK(true, "QUIT")
				}
				if r.OK {
					quit = true
				}
			case "USER", "PASS", "APOP", "STLS":
				expectOK(false, "authorization command after login")
			}
		}
		if o.Failed() || quit {
			break
		}
	}
	committed := false
	if !o.Failed() && !quit && c.End == "quit" {
		r, err := pc.Cmd("QUIT", false)
		if err != nil || !r.OK {
			o.Failf(pid+":wrong-status", "final QUIT: %q %v", r.Status, err)
		}
		quit = true
	}
	quitUnread := false
	if !o.Failed() && !quit && c.End == "quitdrop" {
		// the client sends QUIT and goes away without waiting for the answer: the command was
		// given, so the session ends as after any QUIT (deletions applied when in TRANSACTION)
		if err := pc.Write([]byte("QUIT\r\n")); err != nil {
			o.Failf(pid+":harness", "writing QUIT: %v", err)
		}
		quit, quitUnread = true, true
	}
	if quit && trans {
		committed = true
	}
	if quit && !quitUnread && !o.Failed() {
		if l, err := pc.ReadLine(hx.ReplyTimeout); err != hx.ErrClosed {
			o.Failf(pid+":reply-count", "after QUIT the server sent %q / %v instead of closing: replies out of step", l, err)
		}
	}
	if err := pc.Close(); err != nil {
		o.Failf(pid+":session-wedged", "%v", err)
	}
	// expected store content
	var want []smsg
	for _, m := range content {
		del := false
		if committed && refBox(user) == "box" {
			for j, s := range snap {
				if s.uid == m.uid && marked[j] {
					del = true
				}
			}
		}
		if !del {
			want = append(want, m)
		}
	}
	got, err := w.Store.GetMessages("box")
	if err != nil {
		o.Failf(pid+":store", "GetMessages: %v", err)
	} else {
		var gi, wi []string
		for _, m := range got {
			gi = append(gi, m.ID())
		}
		for _, m := range want {
			wi = append(wi, m.id)
		}
		if strings.Join(gi, ",") != strings.Join(wi, ",") && !o.Failed() {
			o.Failf(pid+":commit", "after the session (ended by %s, quit=%v, in TRANSACTION=%v) the mailbox holds %v, expected %v", c.End, quit, trans, gi, wi)
		}
	}
	o.NonTrivial = trans && everMarked && (sawRset || sawExt || !quit)
	if trans {
		o.Class("logged in")
	}
	if everMarked {
		o.Class("marked a message")
	}
	if sawExt {
		o.Class("external mutation during the session")
	}
	if !quit {
		o.Class("ended without QUIT")
	}
	return o
}

// topOf returns the header, the blank line and the first n body lines of a canonical message.
func topOf(msg []byte, n int) []byte {
	i := bytes.Index(msg, []byte("\n\n"))
	if i < 0 {
		return msg
	}
	head := msg[:i+2]
	rest := msg[i+2:]
	var out []byte
	out = append(out, head...)
	for ; n > 0 && len(rest) > 0; n-- {
		j := bytes.IndexByte(rest, '\n')
		if j < 0 {
			out = append(out, rest...)
			break
		}
		out = append(out, rest[:j+1]...)
		rest = rest[j+1:]
	}
	return out
}

// ---- connection dropped after every command of a valid session ----

type DCase struct {
	Backend string   `json:"backend"`
	N       int      `json:"n"`    // messages in the mailbox
	Cmds    []string `json:"cmds"` // valid TRANSACTION commands after login
	// Idle: instead of dropping the connection the client falls silent and the server ends the
	// session at its idle timeout (configured to 250 ms); tried after the whole session and
	// after each prefix ending in DELE.
	Idle bool `json:"idle,omitempty"`
}

var propDrop = hx.Prop[DCase]{
	ID: pid, Name: "dropat",
	Rule: "a generated valid session (login, then 1-12 valid DELE/STAT/LIST/UIDL/RETR/TOP/RSET/NOOP commands on a mailbox of 2-6 messages) is " +
		"replayed and the connection dropped after k commands for EVERY k in 0..n (never sending QUIT): the mailbox must be unchanged each " +
		"time; in one case of five the client instead falls silent (after the whole session and after each prefix ending in DELE) until the " +
		"server ends the session at its idle timeout of 250 ms; every (session, k) is one evaluation; non-trivial = at least one message was " +
		"marked deleted before the connection ended",
	Quick: 15, Thorough: 150,
	Gen: func(t *rapid.T) DCase {
		c := DCase{Backend: rapid.SampledFrom([]string{"mem", "file"}).Draw(t, "backend"), N: rapid.IntRange(2, 6).Draw(t, "n")}
		m := rapid.IntRange(1, 12).Draw(t, "m")
		for i := 0; i < m; i++ {
			k := rapid.IntRange(1, c.N).Draw(t, "k")
			c.Cmds = append(c.Cmds, rapid.SampledFrom([]string{"DELE %d", "DELE %d", "DELE %d", "STAT", "LIST", "UIDL %d", "RETR %d", "TOP %d 1", "RSET", "NOOP"}).Draw(t, "c"))
			if strings.Contains(c.Cmds[i], "%d") {
				c.Cmds[i] = fmt.Sprintf(c.Cmds[i], k)
			}
		}
		c.Idle = rapid.IntRange(0, 4).Draw(t, "idle") == 0
		return c
	},
	Run: func(c DCase) *hx.Outcome {
		o := &hx.Outcome{}
		cfg := hx.DefaultCfg()
		cfg.Backend, cfg.NoHTTP = c.Backend, true
		if c.Idle {
			cfg.POP3Timeout = "250ms"
			o.Class("ended by the server's idle timeout")
		}
		w, err := hx.NewWorld(cfg)
		if err != nil {
			o.Failf(pid+":harness", "world: %v", err)
			return o
		}
		defer w.Close()
		var want []string
		for i := 0; i < c.N; i++ {
			m, err := deliver(w.Store, "box", bodyOf(i))
			if err != nil {
				o.Failf(pid+":harness", "deliver: %v", err)
				return o
			}
			want = append(want, m.id)
		}
		all := append([]string{"USER box", "PASS x"}, c.Cmds...)
		nt := 0
		for k := 0; k <= len(all); k++ {
			if c.Idle && k != len(all) && !(k > 2 && strings.HasPrefix(all[k-1], "DELE")) {
				continue
			}
			pc, _, err := w.DialPOP3()
			if err != nil {
				o.Failf(pid+":harness", "dial: %v", err)
				return o
			}
			markedAny := false
			for _, line := range all[:k] {
				verb := strings.Fields(line)[0]
				multi := verb == "LIST" || verb == "RETR" || verb == "TOP"
				r, err := pc.Cmd(line, multi)
				if err != nil {
					o.Failf(pid+":no-reply", "drop after %d: %q: %v", k, line, err)
					_ = pc.Close()
					return o
				}
				if verb == "DELE" && r.OK {
					markedAny = true
				}
				if verb == "RSET" {
					markedAny = false
				}
			}
			how := "connection dropped"
			if c.Idle {
				// silence: the server must end the session by itself
				how = "client idle until the server's timeout ended the session"
				deadline := time.Now().Add(5 * time.Second)
				for {
					if _, err := pc.ReadLine(5 * time.Second); err != nil {
						break
					}
					if time.Now().After(deadline) {
						o.Failf(pid+":idle-timeout-missing", "after %d commands the client stayed silent for 5 s (idle timeout 250 ms) and the server still holds the session", k)
						_ = pc.Close()
						return o
					}
				}
			}
			if err := pc.Close(); err != nil {
				o.Failf(pid+":session-wedged", "drop after %d: %v", k, err)
				return o
			}
			if markedAny {
				nt++
			}
			got, _ := w.Store.GetMessages("box")
			var gi []string
			for _, m := range got {
				gi = append(gi, m.ID())
			}
			if strings.Join(gi, ",") != strings.Join(want, ",") {
				o.Failf(pid+":drop-commits", "%s after %d commands %q (no QUIT): mailbox now %v, was %v", how, k, all[:k], gi, want)
				return o
			}
		}
		o.NonTrivial = nt > 0
		hx.AddEvaluations("dropat", len(all), nt, fmt.Sprintf("%v", c))
		return o
	},
}

func TestProp(t *testing.T) {
	t.Run("session", prop.Check)
	t.Run("dropat", propDrop.Check)
}
func TestRegress(t *testing.T) { prop.Regress(t); propDrop.Regress(t) }
func TestReplay(t *testing.T) {
	if *hx.ReplayPath == "" {
		t.Skip("no -replay")
	}
	if !prop.Replay(t, *hx.ReplayPath) && !propDrop.Replay(t, *hx.ReplayPath) {
		t.Fatalf("no prop matches %s", *hx.ReplayPath)
	}
}
func TestMain(m *testing.M) { hx.Main(m) }
