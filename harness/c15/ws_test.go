package c15

import (
	"encoding/json"
	"fmt"
	"net/http"
	"strings"
	"sync"
	"testing"
	"time"

	"github.com/gorilla/websocket"
	"github.com/inbucket/inbucket/v3/pkg/extension/event"
	"pgregory.net/rapid"
	"verif/harness/hx"
)

// WClient is one real WebSocket monitor.
type WClient struct {
	V          int `json:"v"`           // API version 1 or 2
	Filter     int `json:"filter"`      // 0 = all mailboxes, else mailbox index+1
	CloseAfter int `json:"close_after"` // drop the connection after this many events (-1 never)
}

type WEv struct {
	Box int  `json:"box"`
	Del bool `json:"del"` // delete the most recent message of that mailbox instead of dispatching
}

type WCase struct {
	History int       `json:"history"`
	Clients []WClient `json:"clients"`
	Events  []WEv     `json:"events"`
	Late    []WClient `json:"late"` // clients that join after the events (history replay over the wire)
	// Bad: requests to the monitor endpoints whose WebSocket handshake fails (a plain GET, or a
	// wrong protocol version), made before the events; Flood: further dispatches per mailbox after
	// the generated events (more than the 100 events a listener's queue holds).
	Bad   []WClient `json:"bad,omitempty"`
	Flood int       `json:"flood,omitempty"`
}

var propWS = hx.Prop[WCase]{
	ID: pid, Name: "ws",
	Rule: "real gorilla WebSocket clients against the httptest server around the real router (v1 and v2 monitor endpoints, with and without " +
		"mailbox filter) join a hub holding one marker message, 0-2 further requests to those endpoints fail their handshake (plain GET, wrong " +
		"protocol version), then 5-60 dispatches/deletes (in half of the cases followed by 110-130 more dispatches per mailbox) run while some clients drop their connection " +
		"after a generated number of events; late joiners connect afterwards; oracle: every client that stays receives exactly its " +
		"expected sequence (replay, then every matching event once, in order; v1 = stored only), late joiners exactly the retained " +
		"history, Hub.Sync returns within 20 s; non-trivial = >=2 clients, one of which disconnects while events are still flowing",
	Quick: 60, Thorough: 300,
	Gen: func(t *rapid.T) WCase {
		cg := rapid.Custom(func(t *rapid.T) WClient {
			return WClient{V: rapid.SampledFrom([]int{1, 2, 2}).Draw(t, "v"), Filter: rapid.SampledFrom([]int{0, 0, 1, 2}).Draw(t, "filter"),
				CloseAfter: rapid.SampledFrom([]int{-1, -1, 0, 1, 3, 8}).Draw(t, "closeafter")}
		})
		return WCase{
			History: rapid.SampledFrom([]int{2, 5, 30}).Draw(t, "history"),
			Clients: rapid.SliceOfN(cg, 1, 6).Draw(t, "clients"),
			Events: rapid.SliceOfN(rapid.Custom(func(t *rapid.T) WEv {
				return WEv{Box: rapid.IntRange(0, 2).Draw(t, "box"), Del: rapid.IntRange(0, 4).Draw(t, "del") == 0}
			}), 5, 60).Draw(t, "events"),
			Late:  rapid.SliceOfN(cg, 1, 2).Draw(t, "late"),
			Bad:   rapid.SliceOfN(cg, 0, 2).Draw(t, "bad"),
			Flood: rapid.SampledFrom([]int{0, 0, 110, 130}).Draw(t, "flood"),
		}
	},
	Run: runWS,
}

type wsClient struct {
	spec     WClient
	conn     *websocket.Conn
	mu       sync.Mutex
	got      []ev
	expected []ev
	dropped  bool
	done     chan struct{}
}

func (c *wsClient) read() {
	defer close(c.done)
	for {
		_, data, err := c.conn.ReadMessage()
		if err != nil {
			return
		}
		var e ev
		if c.spec.V == 1 {
			var h struct {
				Mailbox string `json:"mailbox"`
				ID      string `json:"id"`
			}
			if json.Unmarshal(data, &h) != nil {
				continue
			}
			e = ev{false, h.Mailbox, h.ID}
		} else {
			var m struct {
				Variant    string `json:"variant"`
				Identifier *struct {
					Mailbox string `json:"mailbox"`
					ID      string `json:"id"`
				} `json:"identifier"`
				Header *struct {
					Mailbox string `json:"mailbox"`
					ID      string `json:"id"`
				} `json:"header"`
			}
			if json.Unmarshal(data, &m) != nil {
				continue
			}
			if m.Variant == "message-deleted" && m.Identifier != nil {
				e = ev{true, m.Identifier.Mailbox, m.Identifier.ID}
			} else if m.Header != nil {
				e = ev{false, m.Header.Mailbox, m.Header.ID}
			}
		}
		c.mu.Lock()
		c.got = append(c.got, e)
		n := len(c.got)
		c.mu.Unlock()
		if c.spec.CloseAfter >= 0 && n > c.spec.CloseAfter { // the marker does not count
			c.mu.Lock()
			c.dropped = true
			c.mu.Unlock()
			_ = c.conn.Close()
			return
		}
	}
}

func runWS(c WCase) *hx.Outcome {
	o := &hx.Outcome{}
	cfg := hx.DefaultCfg()
	cfg.MonitorHistory = c.History
	w, err := hx.NewWorld(cfg)
	if err != nil {
		o.Failf(pid+":harness", "world: %v", err)
		return o
	}
	defer w.Close()
	base := "ws" + strings.TrimPrefix(w.HTTP.URL, "http")
	seq := 0
	var window []ev
	gone := map[string]bool{}
	retained := func() []ev {
		var h []ev
		for _, e := range window {
			if !gone[e.mailbox+"/"+e.id] {
				h = append(h, e)
			}
		}
		return h
	}
	dispatch := func(box int) ev {
		seq++
		e := ev{false, boxes[box], fmt.Sprintf("w%d", seq)}
		w.Hub.Dispatch(event.MessageMetadata{Mailbox: e.mailbox, ID: e.id, Subject: "s", Date: hx.BaseTime})
		window = append(window, e)
		if len(window) > c.History {
			window = window[1:]
		}
		return e
	}
	marker := dispatch(0)
	connect := func(spec WClient) (*wsClient, bool) {
		path := fmt.Sprintf("/api/v%d/monitor/messages", spec.V)
		filter := ""
		if spec.Filter > 0 {
			filter = boxes[spec.Filter-1]
			path += "/" + filter
		}
		conn, _, err := websocket.DefaultDialer.Dial(base+path, nil)
		if err != nil {
			o.Failf(pid+":harness", "ws dial %s: %v", path, err)
			return nil, false
		}
		cl := &wsClient{spec: spec, conn: conn, done: make(chan struct{})}
		for _, h := range retained() {
			if filter == "" || filter == h.mailbox {
				cl.expected = append(cl.expected, h)
			}
		}
		go cl.read()
		return cl, true
	}
	matches := func(cl *wsClient, e ev) bool {
		if cl.spec.Filter > 0 && boxes[cl.spec.Filter-1] != e.mailbox {
			return false
		}
		return !(e.del && cl.spec.V == 1)
	}
	waitCount := func(cl *wsClient, n int, d time.Duration) bool {
		deadline := time.Now().Add(d)
		for {
			cl.mu.Lock()
			g, dr := len(cl.got), cl.dropped
			cl.mu.Unlock()
			if g >= n || dr {
				return true
			}
			if time.Now().After(deadline) {
				return false
			}
			time.Sleep(time.Millisecond)
		}
	}
	var clients []*wsClient
	defer func() {
		for _, cl := range clients {
			_ = cl.conn.Close()
		}
	}()
	for _, spec := range c.Clients {
		cl, ok := connect(spec)
		if !ok {
			return o
		}
		clients = append(clients, cl)
		// registration is complete once the replay (at least the marker, if it matches) has arrived
		if matches(cl, marker) && !waitCount(cl, len(cl.expected), 5*time.Second) {
			o.Failf(pid+":ws-no-replay", "client %+v did not receive the retained history %s within 5 s of connecting", spec, evs(cl.expected))
			return o
		}
	}
	for i, spec := range c.Bad {
		path := fmt.Sprintf("/api/v%d/monitor/messages", spec.V)
		if spec.Filter > 0 {
			path += "/" + boxes[spec.Filter-1]
		}
		req, _ := http.NewRequest("GET", w.HTTP.URL+path, nil)
		if i%2 == 1 {
			// looks like a handshake, but asks for a protocol version the server does not speak
			req.Header.Set("Connection", "Upgrade")
			req.Header.Set("Upgrade", "websocket")
			req.Header.Set("Sec-WebSocket-Version", "7")
			req.Header.Set("Sec-WebSocket-Key", "dGhlIHNhbXBsZSBub25jZQ==")
		}
		resp, err := http.DefaultClient.Do(req)
		if err != nil {
			o.Failf(pid+":harness", "plain GET %s: %v", path, err)
			return o
		}
		if resp.StatusCode == http.StatusSwitchingProtocols {
			o.Failf(pid+":harness", "GET %s without a valid handshake was upgraded", path)
		}
		resp.Body.Close()
		o.Class("a monitor request whose handshake fails")
	}
	// clients whose filter hides the marker: make sure their registration was processed
	time.Sleep(20 * time.Millisecond)
	if !syncHub(w.Hub, hx.ReplyTimeout) {
		o.Failf(pid+":hub-wedged", "Hub.Sync did not return within %v after the clients joined", hx.ReplyTimeout)
		return o
	}
	last := map[int]ev{}
	for _, x := range c.Events {
		var e ev
		if x.Del {
			l, ok := last[x.Box]
			if x.Box == 0 {
				// the oldest retained message instead (full ring: the slot under the write cursor)
				if h := retained(); len(h) > 0 {
					l, ok = h[0], true
				}
			}
			if !ok {
				continue
			}
			e = ev{true, l.mailbox, l.id}
			w.Hub.Delete(e.mailbox, e.id)
			gone[e.mailbox+"/"+e.id] = true
			delete(last, x.Box)
		} else {
			e = dispatch(x.Box)
			last[x.Box] = e
		}
		for _, cl := range clients {
			if matches(cl, e) {
				cl.expected = append(cl.expected, e)
			}
		}
	}
	if c.Flood > 0 {
		o.Class("more than 100 events per mailbox")
		// Dispatch blocks once the hub's own queue is full, i.e. when the hub has stopped: bounded
		flooded := make(chan struct{})
		go func() {
			defer close(flooded)
			for n := 0; n < c.Flood; n++ {
				for b := range boxes {
					e := dispatch(b)
					for _, cl := range clients {
						if matches(cl, e) {
							cl.expected = append(cl.expected, e)
						}
					}
				}
			}
		}()
		select {
		case <-flooded:
		case <-time.After(hx.ReplyTimeout):
			o.Failf(pid+":hub-wedged", "the hub stopped taking events within a flood of %d per mailbox: Dispatch has been blocked for %v although every client is reading or has disconnected (failed handshakes before: %d)", c.Flood, hx.ReplyTimeout, len(c.Bad))
			return o
		}
	}
	if !syncHub(w.Hub, hx.ReplyTimeout) {
		o.Failf(pid+":hub-wedged", "Hub.Sync did not return within %v although every client is reading or has disconnected (failed handshakes before: %d)", hx.ReplyTimeout, len(c.Bad))
		return o
	}
	droppers, stayers := 0, 0
	for i, cl := range clients {
		if cl.spec.CloseAfter >= 0 {
			droppers++
			continue // a client that left is not asserted on
		}
		stayers++
		if !waitCount(cl, len(cl.expected), 5*time.Second) {
			cl.mu.Lock()
			o.Failf(pid+":missed-event", "WebSocket client %d %+v received %d of %d events: got %s, expected %s", i, cl.spec, len(cl.got), len(cl.expected), evs(cl.got), evs(cl.expected))
			cl.mu.Unlock()
			return o
		}
		time.Sleep(5 * time.Millisecond)
		cl.mu.Lock()
		if evs(cl.got) != evs(cl.expected) {
			o.Failf(pid+":wrong-sequence", "WebSocket client %d %+v got %s, expected %s", i, cl.spec, evs(cl.got), evs(cl.expected))
		}
		cl.mu.Unlock()
	}
	for i, spec := range c.Late {
		spec.CloseAfter = -1
		cl, ok := connect(spec)
		if !ok {
			return o
		}
		clients = append(clients, cl)
		if !waitCount(cl, len(cl.expected), 5*time.Second) {
			cl.mu.Lock()
			o.Failf(pid+":missed-event", "late joiner %d %+v received %s, the retained history for it is %s", i, spec, evs(cl.got), evs(cl.expected))
			cl.mu.Unlock()
			return o
		}
		time.Sleep(5 * time.Millisecond)
		cl.mu.Lock()
		if evs(cl.got) != evs(cl.expected) {
			o.Failf(pid+":wrong-sequence", "late joiner %d %+v got %s, the retained history for it is %s", i, spec, evs(cl.got), evs(cl.expected))
		}
		cl.mu.Unlock()
	}
	o.NonTrivial = droppers >= 1 && stayers >= 1
	return o
}

func TestPropWS(t *testing.T) { propWS.Check(t) }
