package c15

import (
	"context"
	"fmt"
	"testing"
	"time"

	"github.com/inbucket/inbucket/v3/pkg/extension"
	"github.com/inbucket/inbucket/v3/pkg/extension/event"
	"github.com/inbucket/inbucket/v3/pkg/msghub"
	"pgregory.net/rapid"
	"verif/harness/hx"
)

// ---- feed: the hub fed the way the server feeds it, through the extension host ----
//
// In the server nobody calls Hub.Dispatch directly: the hub listens (under one name) on the
// host's after-stored and after-deleted brokers, which deliver asynchronously. When a slow
// monitor holds the hub, events pile up on that path. Whatever happens there, a monitor that
// keeps reading must see every event once, in emission order.

// FStep: emit N events (every Del-th a deletion of the message stored just before); with Hold
// the hub is blocked inside the broadcast of the first of them, More further events are emitted
// while it is blocked, then it is released.
type FStep struct {
	N    int  `json:"n"`
	Del  int  `json:"del"`
	Hold bool `json:"hold,omitempty"`
	More int  `json:"more,omitempty"`
}

type FCase struct {
	History int     `json:"history"`
	Steps   []FStep `json:"steps"`
}

var propFeed = hx.Prop[FCase]{
	ID: pid, Name: "feed",
	Rule: "a hub registered on an extension host (as in the server) with a monitor that always reads; 1-5 steps each emit 1-160 stored/deleted events " +
		"through the host's brokers; in a held step the hub is blocked inside the broadcast of the step's first event (a slow monitor) while the rest " +
		"and 0-120 further events are emitted, so that the hub's 100-slot queue fills and events back up in the host's delivery path, then it is " +
		"released; at the end the reading monitor must have received every event exactly once in emission order (20 s bound); non-trivial = a held " +
		"step backed up more than 100 events; distinct = distinct case JSON",
	Quick: 60, Thorough: 600,
	Gen: func(t *rapid.T) FCase {
		c := FCase{History: rapid.SampledFrom([]int{1, 5, 30}).Draw(t, "history")}
		n := rapid.IntRange(1, 5).Draw(t, "nsteps")
		for i := 0; i < n; i++ {
			st := FStep{N: rapid.SampledFrom([]int{1, 3, 20, 110, 160}).Draw(t, "n"), Del: rapid.SampledFrom([]int{0, 2, 3, 7}).Draw(t, "del"), Hold: rapid.Bool().Draw(t, "hold")}
			if st.Hold {
				st.More = rapid.SampledFrom([]int{0, 2, 5, 40, 120}).Draw(t, "more")
			}
			c.Steps = append(c.Steps, st)
		}
		return c
	},
	Run: runFeed,
}

func runFeed(c FCase) *hx.Outcome {
	o := &hx.Outcome{}
	host := extension.NewHost()
	hub := msghub.New(c.History, host)
	ctx, cancel := context.WithCancel(context.Background())
	defer cancel()
	go hub.Start(ctx)
	gate := &lst{kind: "mock", isGate: true, attached: true, blocked: make(chan struct{}, 1), release: make(chan struct{})}
	reader := &lst{kind: "mock", attached: true}
	hub.AddListener(gate)
	hub.AddListener(reader)
	hub.Sync()
	var want []ev
	seq := 0
	emit := func(del bool) {
		if del && seq > 0 {
			e := ev{true, "box", fmt.Sprintf("id%d", seq)}
			want = append(want, e)
			host.Events.AfterMessageDeleted.Emit(&event.MessageMetadata{Mailbox: e.mailbox, ID: e.id})
			return
		}
		seq++
		e := ev{false, "box", fmt.Sprintf("id%d", seq)}
		want = append(want, e)
		host.Events.AfterMessageStored.Emit(&event.MessageMetadata{Mailbox: e.mailbox, ID: e.id, Subject: "s", Date: hx.BaseTime})
	}
	backed := false
	for si, st := range c.Steps {
		if st.Hold {
			gate.blockNext.Store(true)
		}
		for k := 0; k < st.N; k++ {
			emit(st.Del > 0 && k%st.Del == st.Del-1)
			if st.Hold && k == 0 {
				select {
				case <-gate.blocked:
				case <-time.After(hx.ReplyTimeout):
					o.Failf(pid+":feed-stuck", "step %d: the first event of a held step did not reach the hub's first monitor within %v", si, hx.ReplyTimeout)
					return o
				}
			}
		}
		if st.Hold {
			for k := 0; k < st.More; k++ {
				emit(st.Del > 0 && k%st.Del == 0)
			}
			if st.N+st.More > 101 {
				backed = true
				time.Sleep(2 * time.Millisecond) // let the delivery path run into the full queue
			}
			gate.release <- struct{}{}
		}
	}
	deadline := time.Now().Add(hx.ReplyTimeout)
	for {
		reader.mu.Lock()
		n := len(reader.received)
		reader.mu.Unlock()
		if n >= len(want) || time.Now().After(deadline) {
			break
		}
		time.Sleep(time.Millisecond)
	}
	time.Sleep(3 * time.Millisecond) // grace for duplicates
	reader.mu.Lock()
	defer reader.mu.Unlock()
	if len(reader.received) != len(want) {
		o.Failf(pid+":feed-missed-event", "[history %d, steps %+v] the reading monitor received %d of %d events within %v", c.History, c.Steps, len(reader.received), len(want), hx.ReplyTimeout)
		return o
	}
	for i := range want {
		if reader.received[i] != want[i] {
			o.Failf(pid+":feed-wrong-sequence", "[history %d, steps %+v] event %d at the reading monitor is %v, emitted was %v (neighbourhood got %v, want %v)", c.History, c.Steps, i, reader.received[i], want[i],
				evs(reader.received[max0(i-2):min(len(want), i+3)]), evs(want[max0(i-2):min(len(want), i+3)]))
			return o
		}
	}
	o.NonTrivial = backed
	if backed {
		o.Class("more than 100 events backed up behind a held hub")
	}
	return o
}

func max0(i int) int {
	if i < 0 {
		return 0
	}
	return i
}

func TestPropFeed(t *testing.T) { propFeed.Check(t) }

var _ = rapid.Check
