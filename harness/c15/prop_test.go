package c15

import (
	"context"
	"errors"
	"fmt"
	"strings"
	"sync"
	"sync/atomic"
	"testing"
	"time"

	"github.com/inbucket/inbucket/v3/pkg/extension"
	"github.com/inbucket/inbucket/v3/pkg/extension/event"
	"github.com/inbucket/inbucket/v3/pkg/msghub"
	"github.com/inbucket/inbucket/v3/pkg/rest"
	"pgregory.net/rapid"
	"verif/harness/hx"
)

const pid = "C15"

// Op is one step of a hub history.
type Op struct {
	K      string `json:"k"`                // dispatch delete add close stall hold release burst flood
	Box    int    `json:"box,omitempty"`    // mailbox index
	Ref    int    `json:"ref,omitempty"`    // delete: which earlier message (index into dispatched; beyond = unknown id)
	L      int    `json:"l,omitempty"`      // close/stall: listener index
	Kind   string `json:"kind,omitempty"`   // add: mock | failing | v1 | v2
	Filter int    `json:"filter,omitempty"` // add: 0 = all mailboxes, else mailbox index+1
	N      int    `json:"n,omitempty"`      // failing: fail at n-th event
	Mix    int    `json:"mix,omitempty"`    // burst: 0 stored events only; 1, 2 alternate with deletions of the message just stored (2: the odd ones are the deletions)
}

type Case struct {
	History int  `json:"history"`
	Ops     []Op `json:"ops"`
	// NoExclude keeps bursts against a stalled-but-open listener (the recorded finding
	// C15:slow-listener-blocks-hub) instead of setting them aside; used by its reproducer.
	NoExclude bool `json:"no_exclude,omitempty"`
}

var boxes = []string{"alpha", "beta", "gamma"}

var opGen = rapid.Custom(func(t *rapid.T) Op {
	switch rapid.SampledFrom([]string{"dispatch", "dispatch", "dispatch", "dispatch", "delete", "add", "add", "close", "close", "stall", "hold", "release", "burst", "leave", "leave", "leave", "deljoin", "deljoin"}).Draw(t, "k") {
	case "leave":
		return Op{K: "leave", L: rapid.IntRange(1, 7).Draw(t, "l"), N: rapid.IntRange(1, 5).Draw(t, "n"), Box: rapid.IntRange(0, 2).Draw(t, "box")}
	case "dispatch":
		return Op{K: "dispatch", Box: rapid.IntRange(0, 2).Draw(t, "box")}
	case "delete":
		return Op{K: "delete", Ref: rapid.IntRange(0, 30).Draw(t, "ref"), N: rapid.IntRange(0, 4).Draw(t, "mode")}
	case "deljoin":
		return Op{K: "deljoin", N: rapid.IntRange(0, 1).Draw(t, "mode"), Kind: rapid.SampledFrom([]string{"mock", "v1", "v2"}).Draw(t, "kind")}
	case "add":
		return Op{K: "add", Kind: rapid.SampledFrom([]string{"mock", "failing", "v1", "v2", "v2", "v2"}).Draw(t, "kind"),
			Filter: rapid.SampledFrom([]int{0, 0, 1, 2}).Draw(t, "filter"), N: rapid.IntRange(1, 4).Draw(t, "n")}
	case "close":
		return Op{K: "close", L: rapid.IntRange(0, 7).Draw(t, "l")}
	case "stall":
		return Op{K: "stall", L: rapid.IntRange(0, 7).Draw(t, "l")}
	case "hold":
		return Op{K: "hold", Box: rapid.IntRange(0, 2).Draw(t, "box")}
	case "release":
		return Op{K: "release"}
	}
	return Op{K: "burst", Box: rapid.IntRange(0, 2).Draw(t, "box"), Mix: rapid.IntRange(0, 2).Draw(t, "mix")}
})

var prop = hx.Prop[Case]{
	ID: pid, Name: "hub",
	Rule: "rapid-generated histories of 5-40 steps on a hub with history length 0-8: dispatch, delete (live/already deleted/unknown), add " +
		"listener (well-behaved mock, mock failing at its n-th event, real WebSocket v1 and v2 listeners via the export hook, with/without " +
		"mailbox filter), close a listener at any moment (also with events buffered, also twice), stall a listener (its socket writer stops " +
		"draining), hold/release (a gate listener blocks the hub inside a broadcast so that further operations, including a Close, queue up " +
		"behind it), burst (120 events); oracle: reference model of the retained history and of every still-attached listener's exact " +
		"expected sequence (replay at join, then every later matching event once, in hub order), no permanent wedge (Sync within 20 s once " +
		"stalled listeners are closed), a stalled listener with a full buffer must not keep events from a draining one (5 s grace); " +
		"non-trivial = >=2 listeners, one of which leaves (fails/closes/stalls) with events buffered while another keeps receiving",
	Quick: 400, Thorough: 2500,
	Gen: func(t *rapid.T) Case {
		ops := []Op{{K: "add", Kind: rapid.SampledFrom([]string{"v1", "v2"}).Draw(t, "first"), N: 1}, {K: "add", Kind: "v2", Filter: rapid.SampledFrom([]int{0, 1}).Draw(t, "f2"), N: 1}}
		ops = append(ops, rapid.SliceOfN(opGen, 5, 40).Draw(t, "ops")...)
		// one case in twenty keeps bursts against a stalled-but-open listener (recorded finding) to
		// check what comes after it: closing that listener must un-wedge everything
		if rapid.IntRange(0, 7).Draw(t, "floodcase") == 0 {
			// a full operation queue behind a held hub, with a listener that fails during its playback queued first
			pre := []Op{{K: "dispatch", Box: 0}, {K: "hold", Box: 0}, {K: "add", Kind: rapid.SampledFrom([]string{"failing", "failing", "mock"}).Draw(t, "floodkind"), N: 1}, {K: "flood", Box: rapid.IntRange(0, 2).Draw(t, "floodbox")}}
			at := rapid.IntRange(2, len(ops)).Draw(t, "floodat")
			ops = append(append(append([]Op{}, ops[:at]...), pre...), ops[at:]...)
		}
		c := Case{History: rapid.SampledFrom([]int{0, 1, 2, 3, 5, 8}).Draw(t, "history"), Ops: ops, NoExclude: rapid.IntRange(0, 19).Draw(t, "noexclude") == 0}
		if c.NoExclude {
			// make sure the situation arises: a fresh v1 or v2 listener stalls, then a burst
			pre := []Op{{K: "add", Kind: rapid.SampledFrom([]string{"v1", "v2"}).Draw(t, "stallkind"), N: 1}, {K: "stall", L: 2}, {K: "burst", Box: 0, Mix: rapid.IntRange(0, 2).Draw(t, "premix")}}
			at := rapid.IntRange(2, len(c.Ops)).Draw(t, "stallat")
			c.Ops = append(append(append([]Op{}, c.Ops[:at]...), pre...), c.Ops[at:]...)
			if c.History == 0 {
				c.History = 3
			}
		}
		return c
	},
	Run: run,
}

// ev is an observed or expected event in comparable form.
type ev struct {
	del     bool
	mailbox string
	id      string
}

func (e ev) String() string {
	if e.del {
		return "del:" + e.mailbox + "/" + e.id
	}
	return "msg:" + e.mailbox + "/" + e.id
}

type lst struct {
	kind      string
	filter    string
	mu        sync.Mutex
	received  []ev
	expected  []ev
	attached  bool // the model still expects it to receive
	closed    bool
	stalled   bool
	failAt    int
	modelLeft int
	calls     int
	v1        *rest.VerifListenerV1
	v2        *rest.VerifListenerV2
	drain     atomic.Bool
	pumpDone  chan struct{}
	// gate
	isGate    bool
	blockNext atomic.Bool
	blocked   chan struct{}
	release   chan struct{}
}

func (l *lst) Receive(m event.MessageMetadata) error {
	if l.isGate && l.blockNext.CompareAndSwap(true, false) {
		l.blocked <- struct{}{}
		<-l.release
	}
	l.mu.Lock()
	defer l.mu.Unlock()
	l.calls++
	if l.kind == "failing" && l.calls >= l.failAt {
		return errors.New("listener failed")
	}
	l.received = append(l.received, ev{false, m.Mailbox, m.ID})
	return nil
}

func (l *lst) Delete(mailbox, id string) error {
	l.mu.Lock()
	defer l.mu.Unlock()
	l.calls++
	if l.kind == "failing" && l.calls >= l.failAt {
		return errors.New("listener failed")
	}
	l.received = append(l.received, ev{true, mailbox, id})
	return nil
}

func (l *lst) pump() {
	defer close(l.pumpDone)
	for {
		if !l.drain.Load() {
			time.Sleep(200 * time.Microsecond)
			l.mu.Lock()
			c := l.closed
			l.mu.Unlock()
			if c {
				return
			}
			continue
		}
		if l.v1 != nil {
			select {
			case m, ok := <-l.v1.C():
				if !ok {
					return
				}
				l.mu.Lock()
				l.received = append(l.received, ev{false, m.Mailbox, m.ID})
				l.mu.Unlock()
			case <-time.After(time.Millisecond):
			}
		} else {
			select {
			case m, ok := <-l.v2.C():
				if !ok {
					return
				}
				l.mu.Lock()
				if m.Variant == "message-deleted" && m.Identifier != nil {
					l.received = append(l.received, ev{true, m.Identifier.Mailbox, m.Identifier.ID})
				} else if m.Header != nil {
					l.received = append(l.received, ev{false, m.Header.Mailbox, m.Header.ID})
				}
				l.mu.Unlock()
			case <-time.After(time.Millisecond):
			}
		}
		l.mu.Lock()
		c := l.closed
		l.mu.Unlock()
		if c {
			return
		}
	}
}

func syncHub(h *msghub.Hub, d time.Duration) bool {
	done := make(chan struct{})
	go func() { h.Sync(); close(done) }()
	select {
	case <-done:
		return true
	case <-time.After(d):
		return false
	}
}

func run(c Case) *hx.Outcome {
	o := &hx.Outcome{}
	host := extension.NewHost()
	hub := msghub.New(c.History, host)
	ctx, cancel := context.WithCancel(context.Background())
	defer cancel()
	go hub.Start(ctx)

	gate := &lst{kind: "mock", isGate: true, attached: true, blocked: make(chan struct{}, 1), release: make(chan struct{})}
	hub.AddListener(gate)
	ls := []*lst{gate}
	// window = the most recent c.History dispatched messages, oldest first; a deleted one keeps
	// its slot (the statement: "those of the most recent N stored messages that have not since
	// been deleted"); history = its not-deleted members
	var window []ev
	gone := map[string]bool{}
	var history []ev
	rebuild := func() {
		history = history[:0]
		for _, e := range window {
			if !gone[e.mailbox+"/"+e.id] {
				history = append(history, e)
			}
		}
	}
	var dispatched []ev
	seq := 0
	held := false
	queued := 0
	leftWithBuffer, otherKept := false, false

	broadcast := func(e ev) {
		for _, l := range ls {
			if !l.attached {
				continue
			}
			if l.filter != "" && l.filter != e.mailbox {
				continue
			}
			if e.del && l.kind == "v1" {
				continue
			}
			if l.kind == "failing" {
				l.modelLeft--
				if l.modelLeft <= 0 {
					l.attached = false // this call returns an error: the hub drops the listener
					continue
				}
			}
			l.expected = append(l.expected, e)
		}
	}
	dispatch := func(box int) {
		seq++
		e := ev{false, boxes[box], fmt.Sprintf("id%d", seq)}
		dispatched = append(dispatched, e)
		hub.Dispatch(event.MessageMetadata{Mailbox: e.mailbox, ID: e.id, Subject: "s", Date: hx.BaseTime})
		if c.History == 0 {
			return // monitor disabled: nothing is retained or relayed
		}
		window = append(window, e)
		if len(window) > c.History {
			window = window[1:]
		}
		rebuild()
		broadcast(e)
	}
	waitFor := func(l *lst, d time.Duration) bool {
		deadline := time.Now().Add(d)
		for {
			l.mu.Lock()
			n := len(l.received)
			l.mu.Unlock()
			if n >= len(l.expected) {
				return true
			}
			if time.Now().After(deadline) {
				return false
			}
			time.Sleep(time.Millisecond)
		}
	}
	releaseGate := func() {
		if held {
			gate.release <- struct{}{}
			held = false
			queued = 0
		}
	}

	// guard runs one hub call; a call that does not return within the wedge bound means the
	// hub's operation queue is full and nothing drains it.
	wedged := false
	guard := func(step int, what string, f func()) bool {
		done := make(chan struct{})
		go func() { f(); close(done) }()
		select {
		case <-done:
			return true
		case <-time.After(hx.ReplyTimeout):
			wedged = true
			o.Failf(pid+":hub-wedged", "step %d: %s blocked for %v: the hub no longer processes its queue (every open listener is draining or was closed)", step, what, hx.ReplyTimeout)
			return false
		}
	}
	closeL := func(step int, l *lst) bool {
		return guard(step, "Close of a listener", func() {
			if l.v1 != nil {
				l.v1.Close()
			} else {
				l.v2.Close()
			}
		})
	}
	_ = closeL
	// closeStalled closes every stalled listener at once, as their independent socket writers do
	closeStalled := func(step int) bool {
		var wg sync.WaitGroup
		for _, l := range ls {
			if l.stalled && !l.closed {
				wg.Add(1)
				go func(l *lst) {
					defer wg.Done()
					if l.v1 != nil {
						l.v1.Close()
					} else {
						l.v2.Close()
					}
					l.mu.Lock()
					l.closed = true
					l.mu.Unlock()
				}(l)
			}
		}
		return guard(step, "Close of the stalled listeners", wg.Wait)
	}

	// "leave" = the listener's writer stops draining, N more events arrive for it, then it is
	// closed with those events still buffered
	var ops []Op
	for _, op := range c.Ops {
		if op.K == "deljoin" {
			// delete the oldest (or newest) retained message, then a listener joins at once: its
			// replay must not contain the deleted message
			ops = append(ops, Op{K: "delete", N: op.N}, Op{K: "add", Kind: op.Kind, N: 1})
			continue
		}
		if op.K != "leave" {
			ops = append(ops, op)
			continue
		}
		ops = append(ops, Op{K: "stall", L: op.L})
		for k := 0; k < op.N; k++ {
			ops = append(ops, Op{K: "dispatch", Box: op.Box})
		}
		ops = append(ops, Op{K: "close", L: op.L})
	}
	for i, op := range ops {
		if wedged {
			return o
		}
		if held && queued > 80 && op.K != "release" {
			continue // keep the hub's bounded operation queue from filling while it is held
		}
		switch op.K {
		case "dispatch":
			if !guard(i, "Dispatch", func() { dispatch(op.Box) }) {
				return o
			}
			queued++
		case "delete":
			var e ev
			switch {
			case op.N == 0 && len(history) > 0: // the oldest retained message
				e = ev{true, history[0].mailbox, history[0].id}
			case op.N == 1 && len(history) > 0: // the newest retained message
				e = ev{true, history[len(history)-1].mailbox, history[len(history)-1].id}
			case op.N == 2 && len(history) > 0: // one in the middle
				e = ev{true, history[len(history)/2].mailbox, history[len(history)/2].id}
			case op.Ref < len(dispatched): // any message ever dispatched (maybe already gone)
				e = ev{true, dispatched[op.Ref].mailbox, dispatched[op.Ref].id}
			default:
				e = ev{true, "alpha", "unknown"}
			}
			if !guard(i, "Delete", func() { hub.Delete(e.mailbox, e.id) }) {
				return o
			}
			queued++
			if c.History == 0 {
				break
			}
			gone[e.mailbox+"/"+e.id] = true
			rebuild()
			broadcast(e)
		case "add":
			if len(ls) >= 8 {
				break
			}
			l := &lst{kind: op.Kind, attached: true, failAt: op.N, modelLeft: op.N}
			if op.Filter > 0 {
				l.filter = boxes[op.Filter-1]
			}
			// replay of the retained history, oldest first; errors during the replay are ignored
			// by the hub (the listener is registered anyway and dropped at its next failing call)
			for _, h := range history {
				if l.filter != "" && l.filter != h.mailbox {
					continue
				}
				if op.Kind == "failing" {
					l.modelLeft--
					if l.modelLeft <= 0 {
						continue
					}
				}
				l.expected = append(l.expected, h)
			}
			if !guard(i, "AddListener", func() {
				switch op.Kind {
				case "mock", "failing":
					ml := &filtered{inner: l}
					hub.AddListener(ml)
				case "v1":
					l.v1 = rest.VerifNewListenerV1(hub, l.filter)
				case "v2":
					l.v2 = rest.VerifNewListenerV2(hub, l.filter)
				}
			}) {
				return o
			}
			if l.v1 != nil || l.v2 != nil {
				l.drain.Store(true)
				l.pumpDone = make(chan struct{})
				go l.pump()
			}
			ls = append(ls, l)
			queued++
		case "close":
			l := pick(ls, op.L, true)
			if l == nil {
				break
			}
			l.mu.Lock()
			buffered := len(l.expected) - len(l.received)
			l.mu.Unlock()
			if buffered > 0 && l.attached {
				leftWithBuffer = true
			}
			l.attached = false
			if !closeL(i, l) {
				return o
			}
			l.mu.Lock()
			l.closed = true
			l.mu.Unlock()
			queued++
		case "stall":
			l := pick(ls, op.L, false)
			if l == nil {
				break
			}
			// the writer stops at a quiescent point: everything queued so far has been written, so
			// its 100-event buffer is empty when it stalls (a stall with a nearly full buffer is the
			// recorded slow-listener finding reached by another path)
			if held || l.stalled {
				break
			}
			if !syncHub(hub, hx.ReplyTimeout) {
				o.Failf(pid+":hub-wedged", "step %d: Hub.Sync did not return within %v", i, hx.ReplyTimeout)
				return o
			}
			if l.attached && !l.stalled {
				waitFor(l, 5*time.Second)
			}
			l.drain.Store(false)
			l.stalled = true
		case "hold":
			if held || c.History == 0 {
				break
			}
			// drain the queue first, so that the gate blocks on this very event and the bounded
			// operation queue is empty while the hub is held
			if !syncHub(hub, hx.ReplyTimeout) {
				o.Failf(pid+":hub-wedged", "step %d: Hub.Sync did not return within %v although every open listener is draining or was closed", i, hx.ReplyTimeout)
				return o
			}
			gate.blockNext.Store(true)
			if !guard(i, "Dispatch", func() { dispatch(op.Box) }) {
				return o
			}
			select {
			case <-gate.blocked:
				held = true
				queued = 0
			case <-time.After(hx.ReplyTimeout):
				o.Failf(pid+":hub-wedged", "step %d: an event dispatched to a hub with only draining listeners did not reach the first listener within %v", i, hx.ReplyTimeout)
				return o
			}
		case "release":
			releaseGate()
		case "flood":
			// while the hub is held inside a broadcast, one client keeps dispatching: the 100-slot
			// operation queue fills and the client blocks; then the hub is released and must work the
			// whole backlog off (whatever its operations do, they must not wait for queue space
			// themselves, or the hub waits for itself)
			stalledOpen := false
			for _, l := range ls {
				if l.stalled && !l.closed {
					stalledOpen = true
				}
			}
			if !held || c.History == 0 || stalledOpen {
				break
			}
			const floodN = 130
			var sent atomic.Int32
			floodDone := make(chan struct{})
			go func() {
				for k := 0; k < floodN; k++ {
					dispatch(op.Box) // only this goroutine touches the model until floodDone
					sent.Add(1)
				}
				close(floodDone)
			}()
			// wait until the client is stuck on the full queue
			for last, same := int32(-1), 0; same < 25; {
				time.Sleep(2 * time.Millisecond)
				if n := sent.Load(); n == last {
					same++
				} else {
					last, same = n, 0
				}
			}
			gate.release <- struct{}{}
			select {
			case <-floodDone:
			case <-time.After(hx.ReplyTimeout):
				wedged = true
				o.Failf(pid+":hub-wedged", "step %d: the hub was held with its operation queue full (%d of %d dispatches accepted, the client blocked on the rest); %v after its release the backlog is still not worked off: the hub waits for itself", i, sent.Load(), floodN, hx.ReplyTimeout)
				return o
			}
			held = false
			queued = 0
			o.Class("operation queue filled while the hub was held")
		case "burst":
			if held || c.History == 0 {
				break
			}
			stalledOpen := false
			for _, l := range ls {
				if l.stalled && !l.closed && (l.filter == "" || l.filter == boxes[op.Box]) {
					stalledOpen = true
				}
			}
			if stalledOpen && !c.NoExclude {
				// Recorded finding: the hub's send to a stalled listener blocks once its 100-event
				// buffer is full, until the socket writer gives up (write deadline) and closes it.
				// Set aside by construction: the writer gives up before the burst.
				o.Class("excluded: burst while a stalled listener is still open (recorded finding)")
				for _, l := range ls {
					if l.stalled && !l.closed {
						l.attached = false
					}
				}
				if !closeStalled(i) {
					return o
				}
				leftWithBuffer = true
				stalledOpen = false
			}
			blockedHub := false
			burstN := 120
			if stalledOpen {
				burstN = 260 // fills the stalled listener's 100-event buffer and the hub's 100-op queue
			}
			for k := 0; k < burstN && !blockedHub; k++ {
				if stalledOpen {
					for _, l := range ls {
						if l.stalled {
							l.attached = false // a stalled listener is not asserted on
						}
					}
				}
				done := make(chan struct{})
				if op.Mix > 0 && (k+op.Mix)%2 == 0 && len(dispatched) > 0 && c.History > 0 {
					// a deletion of the message stored last (so that the event that overflows a
					// stalled listener's buffer is, in some cases, a deletion)
					e := ev{true, dispatched[len(dispatched)-1].mailbox, dispatched[len(dispatched)-1].id}
					gone[e.mailbox+"/"+e.id] = true
					rebuild()
					broadcast(e)
					go func() { hub.Delete(e.mailbox, e.id); close(done) }()
				} else {
					go func() { dispatch(op.Box); close(done) }()
				}
				wait := hx.ReplyTimeout
				if stalledOpen {
					wait = time.Second
				}
				select {
				case <-done:
				case <-time.After(wait):
					if !stalledOpen {
						o.Failf(pid+":hub-wedged", "step %d: Dispatch blocked for %v although every listener is draining or closed", i, wait)
						return o
					}
					blockedHub = true
				}
			}
			if stalledOpen {
				leftWithBuffer = true
				// liveness (2): the gate listener (draining) must get the burst although another
				// listener is stalled with a full buffer and not yet closed
				if blockedHub || !waitFor(gate, time.Second) {
					gate.mu.Lock()
					o.Failf(pid+":slow-listener-blocks-hub", "step %d: with a stalled listener (full 100-event buffer, not yet closed) a draining listener received only %d of %d events after 1 s: the hub's broadcast is blocked until the stalled listener is closed", i, len(gate.received), len(gate.expected))
					gate.mu.Unlock()
				}
				// the writer gives up: closing the stalled listeners must un-wedge the hub, however
				// full its queues are
				// (each listener has its own writer: they give up independently, i.e. concurrently)
				if !closeStalled(i) {
					return o
				}
				if !syncHub(hub, hx.ReplyTimeout) {
					o.Failf(pid+":hub-wedged", "step %d: the stalled listeners were closed, yet Hub.Sync did not return within %v", i, hx.ReplyTimeout)
					return o
				}
				if blockedHub {
					return o // a dispatch is still in flight in a helper goroutine: stop this case here
				}
			}
		}
	}
	releaseGate()
	// the socket writer of a stalled listener eventually gives up and closes it
	for _, l := range ls {
		if l.stalled && !l.closed {
			l.attached = false
		}
	}
	if !closeStalled(len(ops)) {
		return o
	}
	if !syncHub(hub, hx.ReplyTimeout) {
		o.Failf(pid+":hub-wedged", "all stalled listeners are closed, yet Hub.Sync did not return within %v: the hub is blocked for ever", hx.ReplyTimeout)
		return o
	}
	nAttached := 0
	for li, l := range ls {
		if !l.attached && l.kind != "mock" && l.kind != "failing" {
			continue // a real listener that left is no longer asserted on
		}
		nAttached++
		if !waitFor(l, 5*time.Second) {
			l.mu.Lock()
			o.Failf(pid+":missed-event", "listener %d (%s filter=%q) received %d of %d expected events after Sync: got %s, expected %s", li, l.kind, l.filter, len(l.received), len(l.expected), evs(l.received), evs(l.expected))
			l.mu.Unlock()
			break
		}
		time.Sleep(2 * time.Millisecond) // grace for duplicates
		l.mu.Lock()
		if evs(l.received) != evs(l.expected) {
			o.Failf(pid+":wrong-sequence", "listener %d (%s filter=%q) got %s, expected %s", li, l.kind, l.filter, evs(l.received), evs(l.expected))
		}
		l.mu.Unlock()
		if li > 0 {
			otherKept = true
		}
	}
	for _, l := range ls {
		l.mu.Lock()
		l.closed = true
		l.mu.Unlock()
	}
	o.NonTrivial = len(ls) >= 3 && leftWithBuffer && (otherKept || nAttached >= 1)
	if leftWithBuffer {
		o.Class("a listener left with events buffered")
	}
	if c.History == 0 {
		o.Class("history length 0")
	}
	return o
}

// pick selects the n-th real (WebSocket) listener that is still open; with allowClosed a
// listener that was closed before may be chosen again (closing twice).
func pick(ls []*lst, n int, allowClosed bool) *lst {
	var c []*lst
	for _, l := range ls {
		if l.v1 == nil && l.v2 == nil {
			continue
		}
		if l.closed && !(allowClosed && n%5 == 0) {
			continue
		}
		c = append(c, l)
	}
	if len(c) == 0 {
		return nil
	}
	return c[n%len(c)]
}

// filtered applies the mailbox filter for mock listeners (the real ones filter themselves).
type filtered struct{ inner *lst }

func (f *filtered) Receive(m event.MessageMetadata) error {
	if f.inner.filter != "" && f.inner.filter != m.Mailbox {
		return nil
	}
	return f.inner.Receive(m)
}

func (f *filtered) Delete(mailbox, id string) error {
	if f.inner.filter != "" && f.inner.filter != mailbox {
		return nil
	}
	return f.inner.Delete(mailbox, id)
}

func evs(l []ev) string {
	var s []string
	for _, e := range l {
		s = append(s, e.String())
	}
	return "[" + strings.Join(s, " ") + "]"
}

func TestProp(t *testing.T)    { prop.Check(t) }
func TestRegress(t *testing.T) { prop.Regress(t); propWS.Regress(t); propFeed.Regress(t) }
func TestReplay(t *testing.T) {
	if *hx.ReplayPath == "" {
		t.Skip("no -replay")
	}
	if !prop.Replay(t, *hx.ReplayPath) && !propWS.Replay(t, *hx.ReplayPath) && !propFeed.Replay(t, *hx.ReplayPath) {
		t.Fatalf("no prop matches %s", *hx.ReplayPath)
	}
}
func TestMain(m *testing.M) { hx.Main(m) }
