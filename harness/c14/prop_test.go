package c14

import (
	"bytes"
	"encoding/json"
	"fmt"
	"io"
	"net/http"
	"net/url"
	"regexp"
	"sort"
	"strings"
	"testing"

	"github.com/inbucket/inbucket/v3/pkg/policy"
	"github.com/inbucket/inbucket/v3/pkg/rest/client"
	"github.com/inbucket/inbucket/v3/pkg/stringutil"
	"pgregory.net/rapid"
	"verif/harness/hx"
)

const pid = "C14"

// Op is one step: a delivery, a raw HTTP request or a call of the bundled Go client.
type Op struct {
	K      string `json:"k"`    // deliver | http | client
	Addr   int    `json:"addr"` // index into the address pool
	Verb   string `json:"verb"` // list show source uisource uimsg uihtml seen seenfalse seenjunk delete purge | client: list get source seen delete purge hget hsource hdelete
	Ref    hx.Ref `json:"ref"`
	Subj   string `json:"subj,omitempty"`
	Body   string `json:"body,omitempty"`
	BigKiB int    `json:"big_kib,omitempty"` // the body is preceded by this many KiB of filler lines
	Ask    int    `json:"ask"`               // how the name is spelled in the request: 0 mailbox name, 1 original address, 2 re-cased
	Many   int    `json:"many,omitempty"`    // deliver: this many messages in a row
}

type Case struct {
	Backend  string `json:"backend"`
	Naming   string `json:"naming"`
	BasePath string `json:"base_path"`
	// Slash: the Go client is created with a base URL ending in '/' (as the integration suite does)
	Slash bool `json:"client_url_trailing_slash,omitempty"`
	// Pool: the addresses this history uses (indices into addrs; empty = all of them): with few
	// addresses most requests meet mailboxes that hold mail, several of them with the same ids
	Pool []int `json:"pool,omitempty"`
	Ops  []Op  `json:"ops"`
	// Assembled: the world is what server.FullAssembly wires together (see hx.Cfg.Assembled)
	Assembled bool `json:"assembled,omitempty"`
}

// addresses whose mailbox names exercise URL-significant characters
var addrs = []string{"user@a.test", "a.b@a.test", "o'brien@a.test", "50%off@a.test", "a#b@a.test", "q?r@a.test", "a&b=c@a.test",
	"sl/ash@a.test", "pl+us@a.test", "UPPER@a.test", "x@[1.2.3.4]", "{c}|~`^*!$@b.test",
	// a literal %HH must survive exactly one decoding; "xAy" is what a second decoding of "x%41y" would address
	"x%41y@a.test", "xAy@a.test", "a%2Fb@a.test", "p%25q@a.test",
	// several +tags: the name is cut at the first one, and the mailbox "al+ice" does not exist
	"al+ice+news+2024@a.test", "al+ice@a.test", "al@a.test",
	// long names of URL-significant characters: escaped they are three times as long
	"q" + strings.Repeat("/&=?#%", 10) + "x@a.test", "w" + strings.Repeat("#%&'*/=?^{|}", 9) + "@a.test",
	"l" + strings.Repeat("!$&=?", 12) + "@" + strings.Repeat(strings.Repeat("d", 60)+".", 3) + "test"}

var opGen = rapid.Custom(func(t *rapid.T) Op {
	op := Op{Addr: rapid.IntRange(0, len(addrs)-1).Draw(t, "addr"), Ask: rapid.SampledFrom([]int{0, 0, 1, 2}).Draw(t, "ask")}
	op.Ref = hx.Ref{Kind: rapid.SampledFrom([]string{"issued", "issued", "issued", "issued", "never", "latest", "weird"}).Draw(t, "refkind"), N: rapid.IntRange(0, 1000).Draw(t, "refn")}
	switch rapid.IntRange(0, 10).Draw(t, "k") {
	case 10:
		// a dozen deliveries to one mailbox at once: ids of different length, long listings
		op.K = "deliver"
		op.Many = rapid.IntRange(9, 13).Draw(t, "many")
		op.Subj = "bulk"
		op.Body = "b\r\n"
	case 0, 1, 2:
		op.K = "deliver"
		op.Subj = rapid.SampledFrom([]string{"hello", "second", "x y z"}).Draw(t, "subj")
		op.Body = rapid.SampledFrom([]string{"plain text\r\n", "two\r\nlines\r\n", "", "http://example.com/ link\r\n"}).Draw(t, "body")
		// one delivery in eight carries over a mebibyte of text: responses that no single read
		// and no fixed buffer on the client side holds (added in round m)
		if op.Body != "" && rapid.IntRange(0, 7).Draw(t, "big") == 0 {
			op.BigKiB = rapid.IntRange(1030, 1400).Draw(t, "bigkib")
		}
	case 3, 4, 5, 6:
		op.K = "http"
		op.Verb = rapid.SampledFrom([]string{"list", "show", "source", "uisource", "uimsg", "uihtml", "seen", "seen", "seenfalse", "seenjunk", "delete", "delete", "purge", "uiattach", "uiattach"}).Draw(t, "verb")
	default:
		op.K = "client"
		op.Verb = rapid.SampledFrom([]string{"list", "get", "source", "seen", "seen", "delete", "purge", "hget", "hsource", "hdelete", "list", "heldget", "helddelete"}).Draw(t, "cverb")
	}
	return op
})

var prop = hx.Prop[Case]{
	ID: pid, Name: "api",
	Rule: "rapid-generated histories of 5-40 steps over a world with an httptest server around the real router (mem/file, local/full naming, " +
		"base path '', '/p', '/a/b'): deliveries through the manager to addresses whose mailbox names contain URL-significant characters; raw " +
		"HTTP list/show/source (REST and web UI)/web-UI message/html/PATCH seen (true, false, junk body)/DELETE message/DELETE mailbox; the " +
		"same through pkg/rest/client incl. the header convenience methods; ids live/removed/never issued/'latest'/URL-significant; oracle = " +
		"store model: every 200 must equal it (a message view must show the body text of that delivery and of no other: each body carries a unique word), every mutation must have exactly the model's effect on the whole store, a missing message " +
		"must be 404, no transport error, no 'http: panic serving' in the server log; non-trivial = history mixes a delivery, an HTTP/client " +
		"mutation and a request for a missing message, or uses the client with a name containing a URL-significant character",
	Quick: 300, Thorough: 2000,
	Gen: func(t *rapid.T) Case {
		var pool []int
		if rapid.IntRange(0, 3).Draw(t, "pooled") > 0 {
			pool = rapid.SliceOfNDistinct(rapid.IntRange(0, len(addrs)-1), 2, 5, rapid.ID[int]).Draw(t, "pool")
		}
		return Case{
			Assembled: rapid.IntRange(0, 3).Draw(t, "assembled") == 0,
			Pool:      pool,
			Backend:   rapid.SampledFrom([]string{"mem", "file"}).Draw(t, "backend"),
			Naming:    rapid.SampledFrom([]string{"local", "local", "full"}).Draw(t, "naming"),
			BasePath:  rapid.SampledFrom([]string{"", "", "/p", "/a/b"}).Draw(t, "basepath"),
			Slash:     rapid.IntRange(0, 2).Draw(t, "slash") == 0,
			Ops:       rapid.SliceOfN(opGen, 5, 40).Draw(t, "ops"),
		}
	},
	Run: run,
}

type item struct {
	id, subject, from string
	to                []string
	seen              bool
	size              int64
	src               []byte
	token             string // a word only this delivery's body contains ("" for an empty body)
}

type hdrJSON struct {
	Mailbox string   `json:"mailbox"`
	ID      string   `json:"id"`
	From    string   `json:"from"`
	To      []string `json:"to"`
	Subject string   `json:"subject"`
	Size    int64    `json:"size"`
	Seen    bool     `json:"seen"`
	Body    *struct {
		Text string `json:"text"`
	} `json:"body"`
	Text string `json:"text"` // web UI: the body text rendered as HTML
}

var tokenRe = regexp.MustCompile(`zqd[0-9]+qz`)

func run(c Case) *hx.Outcome {
	o := &hx.Outcome{}
	cfg := hx.DefaultCfg()
	cfg.Backend, cfg.Naming, cfg.BasePath, cfg.Assembled = c.Backend, c.Naming, c.BasePath, c.Assembled
	if c.Assembled {
		o.Class("world wired by server.FullAssembly")
	}
	w, err := hx.NewWorld(cfg)
	if err != nil {
		o.Failf(pid+":harness", "world: %v", err)
		return o
	}
	defer w.Close()
	base := w.HTTP.URL + c.BasePath
	clientBase := base
	if c.Slash {
		clientBase += "/"
		o.Class("client base URL with a trailing slash")
	}
	cl, err := client.New(clientBase)
	if err != nil {
		o.Failf(pid+":harness", "client.New: %v", err)
		return o
	}
	model := map[string][]*item{}
	issued := map[string][]string{}
	delivered, mutated, missing, clientSpecial := false, false, false, false
	var held *client.MessageHeader // a header kept from an earlier client listing
	var heldBox string
	var heldItem *item

	findIdx := func(box, id string) int {
		l := model[box]
		if id == "latest" {
			return len(l) - 1
		}
		for i, it := range l {
			if it.id == id {
				return i
			}
		}
		return -1
	}
	exactIdx := func(box, id string) int {
		if id == "latest" {
			return -1
		}
		return findIdx(box, id)
	}
	checkStore := func(where string) {
		seen := map[string]bool{}
		for box, l := range model {
			seen[box] = true
			got, err := w.Store.GetMessages(box)
			if err != nil {
				o.Failf(pid+":store", "%s: GetMessages(%q): %v", where, box, err)
				return
			}
			if len(got) != len(l) {
				o.Failf(pid+":effect", "%s: mailbox %q now holds %d messages, the model %d", where, box, len(got), len(l))
				return
			}
			for i := range got {
				if got[i].ID() != l[i].id || got[i].Seen() != l[i].seen {
					o.Failf(pid+":effect", "%s: mailbox %q #%d is id=%s seen=%v, the model id=%s seen=%v", where, box, i, got[i].ID(), got[i].Seen(), l[i].id, l[i].seen)
					return
				}
			}
		}
	}
	var tag string
	fail := func(key, f string, a ...interface{}) {
		if strings.Contains(tag, "/") && key != "harness" {
			key = "slash-in-name"
		}
		o.Failf(pid+":"+key, "%s", fmt.Sprintf(f, a...))
	}
	doHTTP := func(method, path string, body string) (int, []byte, error) {
		var rd io.Reader
		if body != "" {
			rd = strings.NewReader(body)
		}
		req, err := http.NewRequest(method, base+path, rd)
		if err != nil {
			return 0, nil, err
		}
		resp, err := http.DefaultClient.Do(req)
		if err != nil {
			return 0, nil, err
		}
		defer resp.Body.Close()
		b, err := io.ReadAll(resp.Body)
		return resp.StatusCode, b, err
	}
	cmpHdr := func(where string, h hdrJSON, box string, it *item) {
		if h.Mailbox != box || h.ID != it.id || h.Subject != it.subject || h.Size != it.size || h.Seen != it.seen || h.From != it.from || strings.Join(h.To, ",") != strings.Join(it.to, ",") {
			fail("response-differs", "%s: response %+v, the store holds mailbox=%s id=%s subject=%q size=%d seen=%v from=%q to=%q", where, h, box, it.id, it.subject, it.size, it.seen, it.from, it.to)
		}
	}

	// prime fetches, just before a message view is judged, the message of another mailbox that
	// bears the same id (mem ids are per-mailbox counters): whatever the server keeps from one
	// request to the next must not show up in the view that follows (added in round m)
	prime := func(box string, idx int) {
		if idx < 0 {
			return
		}
		var others []string
		for b := range model {
			if b != box {
				others = append(others, b)
			}
		}
		sort.Strings(others)
		for _, b := range others {
			for _, it := range model[b] {
				if it.id == model[box][idx].id {
					_, _, _ = doHTTP("GET", "/api/v1/mailbox/"+url.PathEscape(b)+"/"+url.PathEscape(it.id), "")
					o.Class("a same-id message of another mailbox fetched just before the view")
					return
				}
			}
		}
	}
	// the body text a message view shows must be this message's: its own token and nobody else's
	cmpBody := func(where, text string, it *item) {
		for _, tok := range tokenRe.FindAllString(text, -1) {
			if tok != it.token {
				fail("foreign-body", "%s: the body text shown for message %s contains %q, which belongs to another delivery (own token %q): %.120q", where, it.id, tok, it.token, text)
				return
			}
		}
		if it.token != "" && !strings.Contains(text, it.token) {
			fail("body-differs", "%s: the body text shown for message %s lacks its own text %q: %.120q", where, it.id, it.token, text)
		}
	}
	deliveries := 0

	for i, op := range c.Ops {
		addr := addrs[op.Addr]
		if len(c.Pool) > 0 {
			addr = addrs[c.Pool[op.Addr%len(c.Pool)]]
		}
		rc, err := w.Policy.NewRecipient(addr)
		if err != nil {
			continue // address not acceptable in this naming mode
		}
		box := rc.Mailbox
		tag = box
		ask := box
		switch op.Ask {
		case 1:
			ask = addr
		case 2:
			ask = hx.ReCase(addr, 0x5555)
		}
		if strings.Contains(ask, "/") {
			tag = ask
		}
		var id string
		switch op.Ref.Kind {
		case "issued":
			if l := issued[box]; len(l) > 0 {
				id = l[op.Ref.N%len(l)]
			} else {
				id = "none-issued"
			}
		case "never":
			id = []string{"999999", "20200101T000000-0000", "nope", "0"}[op.Ref.N%4]
		case "latest":
			id = "latest"
		default:
			id = []string{"%41", "a b", "x?y", "a#b"}[op.Ref.N%4]
		}
		where := fmt.Sprintf("step %d %s %s name=%q id=%q", i, op.K, op.Verb, ask, id)
		ep := url.PathEscape(ask)
		eid := url.PathEscape(id)
		switch op.K {
		case "deliver":
			n := op.Many
			if n == 0 {
				n = 1
			}
			for k := 0; k < n; k++ {
				subj := op.Subj
				if n > 1 {
					subj = fmt.Sprintf("%s %d", op.Subj, k)
				}
				body, token := op.Body, ""
				if body != "" {
					deliveries++
					token = fmt.Sprintf("zqd%dqz", deliveries)
					if op.BigKiB > 0 {
						body = strings.Repeat(strings.Repeat("f", 62)+"\r\n", op.BigKiB*16) + body
					}
					body += "delivery " + token + "\r\n"
				}
				msg := &hx.MailMsg{From: &hx.Addr{Name: "Sender", Address: "from@a.test"}, To: []hx.Addr{{Address: addr}}, Subject: subj, Body: []byte(body)}
				origin, _ := w.Policy.ParseOrigin("env@a.test")
				if err := w.Manager.Deliver(origin, []*policy.Recipient{rc}, "Received: from harness ([127.0.0.1]) by inbucket.test\r\n", msg.Bytes()); err != nil {
					fail("harness", "%s: Deliver: %v", where, err)
					return o
				}
				ms, _ := w.Store.GetMessages(box)
				if len(ms) != len(model[box])+1 {
					fail("harness", "%s: delivery did not add one message", where)
					return o
				}
				sm := ms[len(ms)-1]
				src, _ := hx.ReadSource(sm)
				from, to, _ := msg.Expect("env@a.test", []string{addr})
				model[box] = append(model[box], &item{id: sm.ID(), subject: subj, size: sm.Size(), src: src, token: token,
					from: stringutil.StringAddress(from), to: stringutil.StringAddressList(to)})
				issued[box] = append(issued[box], sm.ID())
			}
			delivered = true
		case "http":
			idx := findIdx(box, id)
			xidx := exactIdx(box, id)
			switch op.Verb {
			case "list":
				code, b, err := doHTTP("GET", "/api/v1/mailbox/"+ep, "")
				var l []hdrJSON
				if err != nil || code != 200 || json.Unmarshal(b, &l) != nil {
					fail("list", "%s: status %d err %v body %.100q", where, code, err, b)
					break
				}
				if len(l) != len(model[box]) {
					fail("response-differs", "%s: %d entries, the store holds %d", where, len(l), len(model[box]))
					break
				}
				for j := range l {
					cmpHdr(where, l[j], box, model[box][j])
				}
			case "show", "uimsg":
				prime(box, idx)
				path := "/api/v1/mailbox/" + ep + "/" + eid
				if op.Verb == "uimsg" {
					path = "/serve/mailbox/" + ep + "/" + eid
				}
				code, b, err := doHTTP("GET", path, "")
				if err != nil {
					fail("transport", "%s: %v", where, err)
					break
				}
				if idx < 0 {
					missing = true
					if code != 404 {
						fail("missing-not-404", "%s: a message that does not exist was answered %d", where, code)
					}
					break
				}
				var h hdrJSON
				if code != 200 || json.Unmarshal(b, &h) != nil {
					fail("show", "%s: status %d body %.100q", where, code, b)
					break
				}
				cmpHdr(where, h, box, model[box][idx])
				if op.Verb == "uimsg" {
					cmpBody(where, h.Text, model[box][idx])
				} else if h.Body != nil {
					cmpBody(where, h.Body.Text, model[box][idx])
				} else {
					fail("show", "%s: no body in %.100q", where, b)
				}
			case "source", "uisource", "uihtml":
				path := map[string]string{"source": "/api/v1/mailbox/%s/%s/source", "uisource": "/serve/mailbox/%s/%s/source", "uihtml": "/serve/mailbox/%s/%s/html"}[op.Verb]
				code, b, err := doHTTP("GET", fmt.Sprintf(path, ep, eid), "")
				if err != nil {
					fail("transport", "%s: %v (the handler dropped the connection)", where, err)
					break
				}
				if idx < 0 {
					missing = true
					if code != 404 {
						fail("missing-not-404", "%s: a message that does not exist was answered %d", where, code)
					}
					break
				}
				if code != 200 {
					fail("source", "%s: status %d", where, code)
				} else if op.Verb != "uihtml" && !bytes.Equal(b, model[box][idx].src) {
					fail("response-differs", "%s: %d bytes, the stored source has %d", where, len(b), len(model[box][idx].src))
				}
			case "uiattach":
				// attachment download of the web UI: the generated messages have no attachments, so every
				// number is out of range or malformed; whatever it is, the handler must answer
				nums := []string{"0", "1", "-1", "x", "", "007", "4294967295", "4294967296", "9223372036854775807", "9223372036854775808", "18446744073709551615", "99999999999999999999"}
				for _, num := range nums {
					code, _, err := doHTTP("GET", "/serve/mailbox/"+ep+"/"+eid+"/attach/"+num+"/file.bin", "")
					if err != nil {
						fail("transport", "%s: attachment %q: %v (the handler dropped the connection)", where, num, err)
						break
					}
					if code == 200 {
						fail("phantom-attachment", "%s: attachment %q of a message without attachments was answered 200", where, num)
					}
				}
			case "seen", "seenfalse", "seenjunk":
				body := map[string]string{"seen": `{"seen":true}`, "seenfalse": `{"seen":false}`, "seenjunk": `{"seen":`}[op.Verb]
				code, _, err := doHTTP("PATCH", "/api/v1/mailbox/"+ep+"/"+eid, body)
				if err != nil {
					fail("transport", "%s: %v", where, err)
					break
				}
				if op.Verb == "seen" {
					if xidx < 0 {
						missing = true
						if code != 404 {
							fail("missing-not-404", "%s: marking a message that does not exist was answered %d", where, code)
						}
					} else if code != 200 {
						fail("seen", "%s: status %d", where, code)
					} else {
						model[box][xidx].seen = true
						mutated = true
					}
				} else if op.Verb == "seenjunk" && code == 200 {
					fail("junk-accepted", "%s: a truncated JSON body was answered 200", where)
				}
			case "delete":
				code, _, err := doHTTP("DELETE", "/api/v1/mailbox/"+ep+"/"+eid, "")
				if err != nil {
					fail("transport", "%s: %v", where, err)
					break
				}
				if xidx < 0 {
					missing = true
					if code != 404 {
						fail("missing-not-404", "%s: deleting a message that does not exist was answered %d", where, code)
					}
				} else if code != 200 {
					fail("delete", "%s: status %d", where, code)
				} else {
					model[box] = append(append([]*item{}, model[box][:xidx]...), model[box][xidx+1:]...)
					mutated = true
				}
			case "purge":
				code, _, err := doHTTP("DELETE", "/api/v1/mailbox/"+ep, "")
				if err != nil || code != 200 {
					fail("purge", "%s: status %d err %v", where, code, err)
				} else {
					model[box] = nil
					mutated = true
				}
			}
		case "client":
			if strings.ContainsAny(ask, "%#?&=/'{|`^") {
				clientSpecial = true
				o.Class("client call with URL-significant name")
			}
			idx := findIdx(box, id)
			xidx := exactIdx(box, id)
			cid := id // the client puts the id into the URL unescaped; keep to ids it can express
			if strings.ContainsAny(cid, " ?#%") || cid == ".." {
				cid = "nope"
				idx, xidx = -1, -1
			}
			switch op.Verb {
			case "list", "hget", "hsource", "hdelete":
				hs, err := cl.ListMailbox(ask)
				if err != nil {
					fail("client-list", "%s: ListMailbox: %v", where, err)
					break
				}
				if len(hs) != len(model[box]) {
					fail("response-differs", "%s: client lists %d, the store holds %d", where, len(hs), len(model[box]))
					break
				}
				for j, h := range hs {
					it := model[box][j]
					if h.ID != it.id || h.Subject != it.subject || h.Size != it.size || h.Seen != it.seen || h.Mailbox != box {
						fail("response-differs", "%s: client header %+v vs store id=%s subject=%q size=%d seen=%v", where, *h.JSONMessageHeaderV1, it.id, it.subject, it.size, it.seen)
					}
				}
				if len(hs) > 0 && op.Verb == "list" {
					// keep one header of this listing for later: a header is a value the caller owns,
					// whatever listings the client is asked for afterwards
					k := 0
					if op.Ref.N%3 == 0 {
						k = op.Ref.N % len(hs)
					}
					held, heldBox, heldItem = hs[k], box, model[box][k]
				}
				if len(hs) == 0 || op.Verb == "list" {
					break
				}
				j := op.Ref.N % len(hs)
				switch op.Verb {
				case "hget":
					m, err := hs[j].GetMessage()
					if err != nil || m.ID != model[box][j].id {
						fail("client-convenience", "%s: header.GetMessage: %v %v", where, m, err)
					} else if m.Body != nil {
						cmpBody(where, m.Body.Text, model[box][j])
					}
				case "hsource":
					b, err := hs[j].GetSource()
					if err != nil || !bytes.Equal(b.Bytes(), model[box][j].src) {
						fail("client-convenience", "%s: header.GetSource: err %v", where, err)
					}
				case "hdelete":
					if err := hs[j].Delete(); err != nil {
						fail("client-convenience", "%s: header.Delete: %v", where, err)
					} else {
						model[box] = append(append([]*item{}, model[box][:j]...), model[box][j+1:]...)
						mutated = true
					}
				}
			case "heldget", "helddelete":
				if held == nil {
					break
				}
				pos := -1
				for k, it := range model[heldBox] {
					if it == heldItem {
						pos = k
					}
				}
				// other listings in between (what a program polling several mailboxes does)
				for other, l := range model {
					if other != heldBox && len(l) > 0 {
						_, _ = cl.ListMailbox(other)
					}
				}
				if held.ID != heldItem.id || held.Mailbox != heldBox {
					fail("client-header-changed", "%s: a header kept from an earlier ListMailbox (mailbox %q id %s) now says mailbox %q id %s", where, heldBox, heldItem.id, held.Mailbox, held.ID)
					held = nil
					break
				}
				if op.Verb == "heldget" {
					m, err := held.GetMessage()
					if pos < 0 {
						if err == nil {
							fail("client-missing", "%s: GetMessage through a kept header of a message that no longer exists succeeded: %+v", where, m)
						}
					} else if err != nil || m.ID != heldItem.id || m.Subject != heldItem.subject {
						fail("client-convenience", "%s: GetMessage through a header kept from an earlier listing (%s/%s): %+v %v", where, heldBox, heldItem.id, m, err)
					}
					break
				}
				err := held.Delete()
				if pos >= 0 {
					if err != nil {
						fail("client-convenience", "%s: Delete through a header kept from an earlier listing (%s/%s): %v", where, heldBox, heldItem.id, err)
					} else {
						model[heldBox] = append(append([]*item{}, model[heldBox][:pos]...), model[heldBox][pos+1:]...)
						mutated = true
					}
				}
				held = nil
			case "get":
				prime(box, idx)
				m, err := cl.GetMessage(ask, cid)
				if idx < 0 {
					missing = true
					if err == nil {
						fail("client-missing", "%s: GetMessage of a message that does not exist succeeded: %+v", where, m)
					}
					break
				}
				it := model[box][idx]
				if err != nil {
					fail("client-get", "%s: GetMessage: %v", where, err)
				} else if m.ID != it.id || m.Subject != it.subject || m.Size != it.size || m.Seen != it.seen {
					fail("response-differs", "%s: client message id=%s subject=%q size=%d seen=%v vs store id=%s subject=%q size=%d seen=%v", where, m.ID, m.Subject, m.Size, m.Seen, it.id, it.subject, it.size, it.seen)
				} else if m.Body != nil {
					cmpBody(where, m.Body.Text, it)
				}
			case "source":
				b, err := cl.GetMessageSource(ask, cid)
				if idx < 0 {
					missing = true
					if err == nil {
						fail("client-missing", "%s: GetMessageSource of a message that does not exist succeeded", where)
					}
					break
				}
				if err != nil || !bytes.Equal(b.Bytes(), model[box][idx].src) {
					fail("client-source", "%s: GetMessageSource: err %v", where, err)
				}
			case "seen":
				err := cl.MarkSeen(ask, cid)
				if xidx < 0 {
					missing = true
					if err == nil {
						fail("client-missing", "%s: MarkSeen of a message that does not exist succeeded", where)
					}
					break
				}
				if err != nil {
					fail("client-markseen", "%s: client.MarkSeen failed: %v", where, err)
				} else {
					model[box][xidx].seen = true
					mutated = true
				}
			case "delete":
				err := cl.DeleteMessage(ask, cid)
				if xidx < 0 {
					missing = true
					if err == nil {
						fail("client-missing", "%s: DeleteMessage of a message that does not exist succeeded", where)
					}
					break
				}
				if err != nil {
					fail("client-delete", "%s: DeleteMessage: %v", where, err)
				} else {
					model[box] = append(append([]*item{}, model[box][:xidx]...), model[box][xidx+1:]...)
					mutated = true
				}
			case "purge":
				if err := cl.PurgeMailbox(ask); err != nil {
					fail("client-purge", "%s: PurgeMailbox: %v", where, err)
				} else {
					model[box] = nil
					mutated = true
				}
			}
		}
		if lg := w.HTTPLog.String(); strings.Contains(lg, "panic serving") {
			fail("handler-panic", "%s: the HTTP server logged: %.300s", where, lg)
		}
		if !o.Failed() {
			checkStore(where)
		}
		if o.Failed() {
			// known findings do not stop the history; anything else does
			stop := false
			for _, v := range o.Viols {
				if _, ok := hx.Known()[v.Key]; !ok {
					stop = true
				}
			}
			if stop {
				break
			}
		}
	}
	o.NonTrivial = (delivered && mutated && missing) || clientSpecial
	if c.BasePath != "" {
		o.Class("base path configured")
	}
	o.Class("naming " + c.Naming)
	return o
}

func TestProp(t *testing.T)    { prop.Check(t) }
func TestRegress(t *testing.T) { prop.Regress(t) }
func TestReplay(t *testing.T) {
	if *hx.ReplayPath == "" {
		t.Skip("no -replay")
	}
	if !prop.Replay(t, *hx.ReplayPath) {
		t.Fatalf("no prop matches %s", *hx.ReplayPath)
	}
}
func TestMain(m *testing.M) { hx.Main(m) }
