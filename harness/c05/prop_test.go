package c05

import (
	"fmt"
	"io"
	"net/http"
	"regexp"
	"strings"
	"testing"
	"time"
	"unicode/utf8"

	"github.com/inbucket/inbucket/v3/pkg/policy"
	"github.com/inbucket/inbucket/v3/pkg/stringutil"
	"pgregory.net/rapid"
	"verif/harness/hx"
)

const pid = "C05"

// ---- (1) wildcard matcher vs two references ----

type MCase struct {
	Pattern string `json:"pattern"`
	Subject string `json:"subject"`
}

func toRegexp(p string) *regexp.Regexp {
	var b strings.Builder
	b.WriteString(`^`)
	for _, r := range p {
		switch r {
		case '*':
			b.WriteString(`.*`)
		case '?':
			b.WriteString(`.`)
		default:
			b.WriteString(regexp.QuoteMeta(string(r)))
		}
	}
	b.WriteString(`$`)
	return regexp.MustCompile("(?s)" + b.String())
}

func checkMatch(o *hx.Outcome, p, s string) {
	got := stringutil.MatchWithWildcards(p, s)
	ref1 := hx.WildMatch(p, s)
	ref2 := toRegexp(p).MatchString(s)
	if ref1 != ref2 {
		o.Failf(pid+":harness", "references disagree on %q vs %q: %v %v", p, s, ref1, ref2)
		return
	}
	if got != ref1 {
		o.Failf(pid+":wildcard-mismatch", "MatchWithWildcards(%q, %q) = %v, reference says %v", p, s, got, ref1)
	}
}

var propMatch = hx.Prop[MCase]{
	ID: pid, Name: "matcher",
	Rule: "patterns over {a,b,c,.,-,*,?} (0-8 symbols: leading/trailing/adjacent '*', '?' runs, empty) against subjects over the characters " +
		"a validated lower-cased domain can contain ({a,b,c,.,-}, 0-8 symbols); MatchWithWildcards compared with a backtracking matcher and " +
		"an anchored regexp translation; non-trivial = pattern has a wildcard and subject is non-empty; distinct = distinct (pattern, subject)",
	Quick: 20000, Thorough: 200000,
	Gen: func(t *rapid.T) MCase {
		return MCase{
			Pattern: rapid.StringOfN(rapid.SampledFrom([]rune("abc.-**??")), 0, 8, -1).Draw(t, "pattern"),
			Subject: rapid.StringOfN(rapid.SampledFrom([]rune("aabbc.-")), 0, 8, -1).Draw(t, "subject"),
		}
	},
	Run: func(c MCase) *hx.Outcome {
		o := &hx.Outcome{}
		checkMatch(o, c.Pattern, c.Subject)
		o.NonTrivial = strings.ContainsAny(c.Pattern, "*?") && c.Subject != ""
		if strings.Contains(c.Pattern, "**") {
			o.Class("adjacent stars")
		}
		if hx.WildMatch(c.Pattern, c.Subject) {
			o.Class("matches")
		}
		return o
	},
}

// ---- (2) exported predicates vs the documented rules ----

type PCase struct {
	Cfg    hx.Cfg `json:"cfg"`
	Domain string `json:"domain"`
}

var patGen = rapid.Custom(func(t *rapid.T) string {
	switch rapid.IntRange(0, 3).Draw(t, "patkind") {
	case 0:
		return hx.ReCase(rapid.SampledFrom(hx.Domains).Draw(t, "d"), rapid.Uint64().Draw(t, "m"))
	case 1:
		return "*." + rapid.SampledFrom([]string{"test", "a.test", "TEST"}).Draw(t, "suffix")
	case 2:
		return rapid.SampledFrom([]string{"?.test", "*", "a.*", "*a*", "??test", "x-y.tes?", "*.?.test", "B.TEST"}).Draw(t, "fixed")
	}
	return rapid.StringOfN(rapid.SampledFrom([]rune("abct.-*?")), 1, 7, -1).Draw(t, "freepat")
})

var cfgGen = rapid.Custom(func(t *rapid.T) hx.Cfg {
	c := hx.PolicyCfgGen(hx.DefaultCfg()).Draw(t, "cfg")
	c.RejectOrigin = nil
	if rapid.IntRange(0, 3).Draw(t, "hasorigin") > 0 {
		c.RejectOrigin = rapid.SliceOfN(patGen, 1, 3).Draw(t, "origin")
	}
	c.MaxRecipients = rapid.IntRange(0, 4).Draw(t, "maxrcpt")
	return c
})

var domGen = rapid.Custom(func(t *rapid.T) string {
	if rapid.IntRange(0, 5).Draw(t, "lit") == 0 {
		return hx.ReCase(rapid.SampledFrom([]string{"[1.2.3.4]", "[IPv6:::1]", "[IPv6:2001:db8::1]", "[IPv6:2001:DB8::2]"}).Draw(t, "iplit"), rapid.SampledFrom([]uint64{0, 0, 2, 6, 1 << 9, 0xffff}).Draw(t, "litmask"))
	}
	d := rapid.SampledFrom(append([]string{"other.test", "test", "a.a.test"}, hx.Domains...)).Draw(t, "dom")
	if rapid.Bool().Draw(t, "recase") {
		d = hx.ReCase(d, rapid.Uint64().Draw(t, "mask"))
	}
	return d
})

func cfgMatters(c hx.Cfg) bool {
	return (c.DefaultAccept && len(c.RejectDomains) > 0) || (!c.DefaultAccept && len(c.AcceptDomains) > 0) ||
		(c.DefaultStore && len(c.DiscardDomains) > 0) || (!c.DefaultStore && len(c.StoreDomains) > 0) ||
		strings.ContainsAny(strings.Join(c.RejectOrigin, ""), "*?")
}

var propPred = hx.Prop[PCase]{
	ID: pid, Name: "predicates",
	Rule: "configurations (both default switches, accept/reject/store/discard lists of 0-3 vocabulary domains in random letter case, 0-3 " +
		"reject-origin patterns with wildcards) loaded through environment variables and config.Process; ShouldAcceptDomain / " +
		"ShouldStoreDomain / ShouldAcceptOriginDomain compared with a reference written from doc/config.md for vocabulary, foreign and " +
		"IP-literal domains in random case; one case in five comes from a dense corner (patterns '*.'+{a,b}{1,2}, domains {a,b}{1,2}.{a,b}{1,2}) " +
		"whose 216 combinations recur within a process in every order (no verdict may depend on earlier decisions); non-trivial = a list that matters for the drawn default is non-empty or a pattern has a wildcard",
	Quick: 5000, Thorough: 20000,
	Gen: func(t *rapid.T) PCase {
		c := PCase{Cfg: cfgGen.Draw(t, "cfg"), Domain: domGen.Draw(t, "domain")}
		if rapid.IntRange(0, 4).Draw(t, "dense") == 0 {
			// a dense corner: suffix patterns and two-label domains over two letters, 216 combinations
			// in all, so that within one process the same and nearly the same (pattern, domain)
			// pairs are decided over and over in every order - a verdict must not depend on which
			// decisions were taken before it
			ab := rapid.StringOfN(rapid.SampledFrom([]rune("ab")), 1, 2, -1)
			c.Cfg.RejectOrigin = nil
			for i, n := 0, rapid.IntRange(1, 2).Draw(t, "npat"); i < n; i++ {
				c.Cfg.RejectOrigin = append(c.Cfg.RejectOrigin, "*."+ab.Draw(t, "suffix"))
			}
			c.Domain = ab.Draw(t, "label") + "." + ab.Draw(t, "tld")
			return c
		}
		if rapid.IntRange(0, 3).Draw(t, "letter") == 0 {
			// case folding letter by letter: a listed domain queried with exactly one kind of
			// letter in upper case (every letter of the alphabet gets its turn)
			l := string(rune('a' + rapid.IntRange(0, 25).Draw(t, "l")))
			listed := "m" + l + l + "k." + l + "test"
			c.Domain = "m" + strings.ToUpper(l+l) + "k." + strings.ToUpper(l) + "test"
			switch rapid.IntRange(0, 4).Draw(t, "where") {
			case 0:
				c.Cfg.AcceptDomains = append(c.Cfg.AcceptDomains, listed)
			case 1:
				c.Cfg.RejectDomains = append(c.Cfg.RejectDomains, listed)
			case 2:
				c.Cfg.StoreDomains = append(c.Cfg.StoreDomains, listed)
			case 3:
				c.Cfg.DiscardDomains = append(c.Cfg.DiscardDomains, listed)
			default:
				c.Cfg.RejectOrigin = append(c.Cfg.RejectOrigin, rapid.SampledFrom([]string{listed, "*." + l + "test", "m" + l + "?k.*"}).Draw(t, "opat"))
			}
		}
		return c
	},
	Run: func(c PCase) *hx.Outcome {
		o := &hx.Outcome{}
		conf, err := hx.ProcessCfg(c.Cfg)
		if err != nil {
			o.Failf(pid+":harness", "%v", err)
			return o
		}
		ap := &policy.Addressing{Config: conf}
		if got, want := ap.ShouldAcceptDomain(c.Domain), hx.RefAccept(c.Cfg, c.Domain); got != want {
			o.Failf(pid+":accept-rule", "ShouldAcceptDomain(%q) = %v, documented rule gives %v (default %v accept %q reject %q)", c.Domain, got, want, c.Cfg.DefaultAccept, c.Cfg.AcceptDomains, c.Cfg.RejectDomains)
		}
		if got, want := ap.ShouldStoreDomain(c.Domain), hx.RefStore(c.Cfg, c.Domain); got != want {
			o.Failf(pid+":store-rule", "ShouldStoreDomain(%q) = %v, documented rule gives %v (default %v store %q discard %q)", c.Domain, got, want, c.Cfg.DefaultStore, c.Cfg.StoreDomains, c.Cfg.DiscardDomains)
		}
		if got, want := ap.ShouldAcceptOriginDomain(c.Domain), hx.RefOriginOK(c.Cfg, c.Domain); got != want {
			o.Failf(pid+":origin-rule", "ShouldAcceptOriginDomain(%q) = %v, documented rule gives %v (patterns %q)", c.Domain, got, want, c.Cfg.RejectOrigin)
		}
		o.NonTrivial = cfgMatters(c.Cfg)
		return o
	},
}

// ---- (3) live sessions ----

type STxn struct {
	Sender string   `json:"sender"` // "" = null sender
	Rcpts  []string `json:"rcpts"`
}

type SCase struct {
	Cfg  hx.Cfg `json:"cfg"`
	Txns []STxn `json:"txns"`
	// Long: every non-empty list gets ten further (unrelated) domains in front, as a real
	// installation's lists may be long. Status: the web UI's status page, which displays the
	// configuration, is fetched before the session (reading a configuration must not change it).
	Long   bool `json:"long_lists,omitempty"`
	Status bool `json:"status_page,omitempty"`
}

var propSess = hx.Prop[SCase]{
	ID: pid, Name: "sessions",
	Rule: "the same configurations on a live session: 1-3 transactions of MAIL (sender domain from the vocabulary / foreign / IP literal, " +
		"random case) and 0-7 well-formed RCPTs; reply class of MAIL must equal 'origin not refused', of each RCPT 'accept rule and fewer " +
		"than max accepted so far', never more than max 250s per transaction, and after DATA the store holds the message exactly for the " +
		"recipients the store rule selects (whole-store comparison); non-trivial as for predicates, or the recipient limit was reached",
	Quick: 250, Thorough: 1500,
	Gen: func(t *rapid.T) SCase {
		c := SCase{Cfg: cfgGen.Draw(t, "cfg")}
		n := rapid.IntRange(1, 3).Draw(t, "ntxn")
		for i := 0; i < n; i++ {
			x := STxn{}
			if rapid.IntRange(0, 9).Draw(t, "nullsender") > 0 {
				x.Sender = "s@" + domGen.Draw(t, "sdom")
			}
			nr := rapid.IntRange(0, 7).Draw(t, "nrcpt")
			for j := 0; j < nr; j++ {
				// few distinct local parts: two recipients of one transaction often share one across
				// domains with different store verdicts (one mailbox under local naming)
				x.Rcpts = append(x.Rcpts, fmt.Sprintf("r%d@%s", rapid.IntRange(0, 2).Draw(t, "rlocal"), domGen.Draw(t, "rdom")))
			}
			c.Txns = append(c.Txns, x)
		}
		c.Long = rapid.IntRange(0, 3).Draw(t, "long") == 0
		c.Status = rapid.IntRange(0, 2).Draw(t, "status") == 0
		return c
	},
	Run: runSess,
}

func runSess(c SCase) *hx.Outcome {
	o := &hx.Outcome{}
	if c.Long {
		pad := func(l []string) []string {
			if len(l) == 0 {
				return l
			}
			var out []string
			for i := 0; i < 10; i++ {
				out = append(out, fmt.Sprintf("filler%d.example", i))
			}
			return append(out, l...)
		}
		c.Cfg.AcceptDomains, c.Cfg.RejectDomains = pad(c.Cfg.AcceptDomains), pad(c.Cfg.RejectDomains)
		c.Cfg.StoreDomains, c.Cfg.DiscardDomains = pad(c.Cfg.StoreDomains), pad(c.Cfg.DiscardDomains)
		c.Cfg.RejectOrigin = pad(c.Cfg.RejectOrigin)
		o.Class("lists of more than ten entries")
	}
	cfg := c.Cfg
	cfg.NoHTTP = !c.Status
	w, err := hx.NewWorld(cfg)
	if err != nil {
		o.Failf(pid+":harness", "world: %v", err)
		return o
	}
	defer w.Close()
	if c.Status {
		for _, p := range []string{"/serve/status", "/serve/greeting"} {
			if resp, err := http.Get(w.HTTP.URL + p); err == nil {
				_, _ = io.Copy(io.Discard, resp.Body)
				resp.Body.Close()
			}
		}
		o.Class("status page fetched first")
	}
	o.NonTrivial = cfgMatters(c.Cfg)
	model := hx.NewEModel()
	cl, _, err := w.DialSMTP()
	if err != nil {
		o.Failf(pid+":harness", "dial: %v", err)
		return o
	}
	defer cl.Close()
	if r, err := cl.Cmd("HELO c.test"); err != nil || r.Code != 250 {
		o.Failf(pid+":harness", "HELO: %v %v", r, err)
		return o
	}
	for ti, x := range c.Txns {
		r, err := cl.Cmd("MAIL FROM:<" + x.Sender + ">")
		if err != nil {
			o.Failf(pid+":no-reply", "MAIL: %v", err)
			return o
		}
		if x.Sender != "" {
			_, dom := hx.SplitAddr(x.Sender)
			if want := hx.RefOriginOK(c.Cfg, dom); (r.Class() == 2) != want {
				o.Failf(pid+":origin-decision", "txn %d: MAIL FROM:<%s> -> %v, reject-origin patterns %q say accept=%v", ti, x.Sender, r, c.Cfg.RejectOrigin, want)
			}
		}
		if r.Class() != 2 {
			continue
		}
		var accepted []string
		for _, rc := range x.Rcpts {
			r, err := cl.Cmd("RCPT TO:<" + rc + ">")
			if err != nil {
				o.Failf(pid+":no-reply", "RCPT: %v", err)
				return o
			}
			_, dom := hx.SplitAddr(rc)
			policyOK := hx.RefAccept(c.Cfg, dom)
			want := policyOK && len(accepted) < c.Cfg.MaxRecipients
			if policyOK && !want {
				o.NonTrivial = true
				o.Class("recipient limit reached")
			}
			if (r.Class() == 2) != want {
				o.Failf(pid+":rcpt-decision", "txn %d: RCPT TO:<%s> -> %v; accept rule says %v, %d of max %d already accepted", ti, rc, r, policyOK, len(accepted), c.Cfg.MaxRecipients)
			}
			if r.Class() == 2 {
				accepted = append(accepted, rc)
			}
			if len(accepted) > c.Cfg.MaxRecipients {
				o.Failf(pid+":too-many-recipients", "txn %d: %d recipients accepted, maximum is %d", ti, len(accepted), c.Cfg.MaxRecipients)
			}
		}
		t0 := time.Now()
		r, err = cl.Cmd("DATA")
		if err != nil {
			o.Failf(pid+":no-reply", "DATA: %v", err)
			return o
		}
		if len(accepted) == 0 {
			if r.Code == 354 {
				o.Failf(pid+":data-without-rcpt", "txn %d: DATA accepted with no recipient", ti)
				return o
			}
			if r2, err := cl.Cmd("RSET"); err != nil || r2.Class() != 2 {
				o.Failf(pid+":harness", "RSET: %v %v", r2, err)
				return o
			}
			continue
		}
		if r.Code != 354 {
			o.Failf(pid+":data-refused", "txn %d: DATA with accepted recipients -> %v", ti, r)
			return o
		}
		msg := &hx.MailMsg{Subject: fmt.Sprintf("txn %d", ti), Body: []byte("x\r\n")}
		data := msg.Bytes()
		_, tx := hx.DotStuff(data)
		r, err = cl.Data(data)
		if err != nil || r.Code != 250 {
			o.Failf(pid+":data-refused", "txn %d: end of DATA -> %v %v", ti, r, err)
			return o
		}
		from, to, subj := msg.Expect(x.Sender, accepted)
		for _, rc := range accepted {
			_, dom := hx.SplitAddr(rc)
			if hx.RefStore(c.Cfg, dom) {
				o.Class("stored")
				mb, merr := w.MailboxFor(rc)
				if merr != nil {
					o.Failf(pid+":harness", "mailbox for %q: %v", rc, merr)
					return o
				}
				model.Add(&hx.EMsg{Mailbox: mb, From: from, To: to, Subject: subj, Sender: x.Sender, Helo: "c.test", Data: tx, NotBefo: t0, NotAfter: time.Now()})
			} else {
				o.Class("discarded")
			}
		}
		if err := hx.CmpE2E(w.Store, model, nil); err != nil {
			o.Failf(pid+":store-decision", "txn %d: %v", ti, err)
			return o
		}
	}
	if err := hx.CmpE2E(w.Store, model, nil); err != nil {
		o.Failf(pid+":store-decision", "at end: %v", err)
	}
	return o
}

func TestProp(t *testing.T) {
	t.Run("matcher", propMatch.Check)
	t.Run("predicates", propPred.Check)
	t.Run("sessions", propSess.Check)
}
func TestRegress(t *testing.T) { propMatch.Regress(t); propPred.Regress(t); propSess.Regress(t) }
func TestReplay(t *testing.T) {
	if *hx.ReplayPath == "" {
		t.Skip("no -replay")
	}
	if !propMatch.Replay(t, *hx.ReplayPath) && !propPred.Replay(t, *hx.ReplayPath) && !propSess.Replay(t, *hx.ReplayPath) {
		t.Fatalf("no prop matches %s", *hx.ReplayPath)
	}
}
func TestMain(m *testing.M) { hx.Main(m) }

// FuzzWildcard drives the matcher differential with coverage-guided strings restricted to the
// reachable alphabet (a validated domain never contains '*' or '?').
func FuzzWildcard(f *testing.F) {
	f.Add("*.otherinvaliddomain.com", "mail.otherinvaliddomain.com")
	f.Add("a*b?c", "axxbyc")
	f.Add("**", "")
	f.Add("?*?", "ab")
	f.Add("**********1", "00000000000000000000000000000000") // many stars: once blew up the reference matcher
	f.Fuzz(func(t *testing.T, p, s string) {
		if len(p) > 40 || len(s) > 40 || strings.ContainsAny(s, "*?") || !utf8.ValidString(p) || !utf8.ValidString(s) {
			return
		}
		o := &hx.Outcome{}
		checkMatch(o, p, s)
		if o.Failed() {
			t.Fatalf("%s", o.Viols[0].Error())
		}
	})
}
