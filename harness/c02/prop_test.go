package c02

import (
	"bytes"
	"encoding/json"
	"fmt"
	"io"
	"net/http"
	"runtime"
	"strconv"
	"strings"
	"sync"
	"testing"
	"time"

	"github.com/inbucket/inbucket/v3/pkg/storage"
	"pgregory.net/rapid"
	"verif/harness/hx"
)

const pid = "C02"

// Line is one generated body line: a class, a size/seed parameter and its terminator.
type Line struct {
	Kind string `json:"kind"`
	N    int    `json:"n"`
	EOL  string `json:"eol"` // crlf | lf
}

// Case is a body as a list of lines; the last line may lack its newline.
type Case struct {
	Backend string `json:"backend"`
	Lines   []Line `json:"lines"`
	NoFinal bool   `json:"no_final_newline"`
	Raw     []byte `json:"raw,omitempty"`   // fuzz/regress: literal body instead of Lines
	NRcpt   int    `json:"nrcpt,omitempty"` // recipients of the transaction (0 = one)
	// Limit, when set, configures the maximum message size relative to the transmitted data:
	// len(data)+*Limit bytes. At or under the limit the message may be refused (552, nothing
	// stored) - but whatever is accepted must be complete.
	Limit *int `json:"limit_delta,omitempty"`
	// Lead is the number of empty lines in front of the header lines (the header block is then
	// empty and everything transmitted is body).
	Lead int `json:"lead,omitempty"`
	// LongEnv: the client greets with a 200-character host name and sends from an address of about
	// 270 characters, so that the trace headers the server puts in front are long.
	LongEnv bool `json:"long_envelope,omitempty"`
	// Hdrs is a number of additional well-formed header lines (72 bytes each): 900 of them make a
	// header block beyond 64 KiB, so that the first empty line of the message lies that far in.
	Hdrs int `json:"extra_headers,omitempty"`
}

var kinds = []string{"empty", "dot", "dotdot", "dottext", "text", "text", "text", "8bit", "nul", "barecr", "endcr", "crcr", "rand", "long"}

func (l Line) bytes() []byte {
	var b []byte
	switch l.Kind {
	case "empty":
	case "dot":
		b = []byte(".")
	case "dotdot":
		b = []byte("..")
	case "dottext":
		b = []byte(".leading dot " + strconv.Itoa(l.N))
	case "text":
		b = bytes.Repeat([]byte("The quick brown fox. "), l.N%8+1)
	case "8bit":
		b = []byte("caf\xe9 \xff\xfe\x80 na\xefve " + strconv.Itoa(l.N))
	case "nul":
		b = []byte("nul\x00byte\x00" + strconv.Itoa(l.N))
	case "barecr":
		b = []byte("bare\rcr\r.in the middle")
	case "endcr":
		b = []byte("ends in cr\r")
	case "crcr":
		b = []byte("\r\r")
	case "rand":
		// pseudo-random bytes without LF, derived from N (pure function of the case)
		x := uint32(l.N*2654435761 + 12345)
		n := l.N%200 + 1
		b = make([]byte, n)
		for i := range b {
			x = x*1664525 + 1013904223
			c := byte(x >> 24)
			if c == '\n' {
				c = '.'
			}
			b[i] = c
		}
	case "huge":
		// ~4 MiB: many ordinary lines around one 1 MiB line (thorough tier only)
		var hb bytes.Buffer
		for i := 0; hb.Len() < 3<<20; i++ {
			fmt.Fprintf(&hb, "%07d the quick brown fox jumps over the lazy dog .\r\n.", i)
		}
		hb.Write(bytes.Repeat([]byte("M"), 1<<20))
		b = hb.Bytes()
	case "long":
		sizes := []int{65535, 65536, 65537, 66000, 70000, 200000, 4096, 4097, 8192, 12289, 20000}
		n := sizes[l.N%len(sizes)]
		// patterns of different periods put '.' (and other bytes) at every residue of small and
		// power-of-two block sizes somewhere along the line
		pats := []string{"L", "abc.defgh", "0123456789.", ".x", "wxyz....", "q.rstuvwxyzABCDEFGHIJKLMNOPQRSTUVWXYZ0123456789-_."}
		pat := pats[(l.N/len(sizes))%len(pats)]
		b = bytes.Repeat([]byte(pat), n/len(pat)+1)[:n]
		if l.N%2 == 1 {
			b[0] = '.'
		}
	}
	return b
}

func (c Case) body() []byte {
	if c.Raw != nil {
		return c.Raw
	}
	var b bytes.Buffer
	for i, l := range c.Lines {
		b.Write(l.bytes())
		if i == len(c.Lines)-1 && c.NoFinal {
			break
		}
		if l.EOL == "lf" {
			b.WriteByte('\n')
		} else {
			b.WriteString("\r\n")
		}
	}
	return b.Bytes()
}

var lineGen = rapid.Custom(func(t *rapid.T) Line {
	return Line{
		Kind: rapid.SampledFrom(kinds).Draw(t, "kind"),
		N:    rapid.IntRange(0, 100000).Draw(t, "n"),
		EOL:  rapid.SampledFrom([]string{"crlf", "crlf", "lf"}).Draw(t, "eol"),
	}
})

var prop = hx.Prop[Case]{
	ID: pid, Name: "roundtrip",
	Rule: "bodies built from 0-12 lines of classes {empty, '.', '..', '.text', ASCII text, 8-bit, NUL, bare CR inside, CR before the line " +
		"end, CR CR, pseudo-random bytes, long 65535..200000 bytes} each ending in CRLF or bare LF, last newline optional; sent through a " +
		"real SMTP session with conforming dot-stuffing, behind a header block of 2 lines or of 12/900/911/2000 further lines (beyond 64 KiB); oracle: Source() = trace headers ++ B with canon(B) = canon(transmitted) (canon: a " +
		"run of CRs followed by LF is one line break), REST and web-UI source byte-equal to Source(), POP3 RETR and TOP(all lines) " +
		"canon-equal to Source(), Size() = REST size = POP3 LIST/STAT size = len(Source()); non-trivial = body has a leading-dot line, bare " +
		"CR/LF, 8-bit/NUL byte, a line > 64 KiB, no final newline, or is empty",
	Quick: 250, Thorough: 800,
	Gen: func(t *rapid.T) Case {
		c := Case{
			Backend: rapid.SampledFrom([]string{"mem", "file"}).Draw(t, "backend"),
			Lines:   rapid.SliceOfN(lineGen, 0, 12).Draw(t, "lines"),
			NoFinal: rapid.IntRange(0, 3).Draw(t, "nofinal") == 0,
			NRcpt:   rapid.SampledFrom([]int{1, 1, 2, 3}).Draw(t, "nrcpt"),
		}
		c.Lead = rapid.SampledFrom([]int{0, 0, 0, 0, 1, 3}).Draw(t, "lead")
		c.LongEnv = rapid.IntRange(0, 5).Draw(t, "longenv") == 0
		c.Hdrs = rapid.SampledFrom([]int{0, 0, 0, 0, 0, 0, 12, 900, 911, 2000}).Draw(t, "hdrs")
		if rapid.IntRange(0, 3).Draw(t, "limited") == 0 {
			d := rapid.SampledFrom([]int{-5000, -700, -100, -1, 0, 1, 100}).Draw(t, "limit_delta")
			c.Limit = &d
		}
		if hx.Tier() == "thorough" && rapid.IntRange(0, 150).Draw(t, "huge") == 0 {
			c.Lines = append(c.Lines, Line{Kind: "huge", EOL: "crlf"})
		}
		return c
	},
	Run: run,
}

func classify(o *hx.Outcome, body []byte) {
	nt := false
	mark := func(c string) { o.Class(c); nt = true }
	if len(body) == 0 {
		mark("empty body")
	}
	if bytes.HasPrefix(body, []byte(".")) || bytes.Contains(body, []byte("\n.")) {
		mark("leading-dot line")
	}
	if len(body) > 0 && body[len(body)-1] != '\n' {
		mark("no final newline")
	}
	for i, ch := range body {
		if ch == '\r' && (i+1 >= len(body) || body[i+1] != '\n') {
			mark("bare CR")
			break
		}
	}
	for i, ch := range body {
		if ch == '\n' && (i == 0 || body[i-1] != '\r') {
			mark("bare LF")
			break
		}
	}
	for _, ch := range body {
		if ch >= 0x80 || ch == 0 {
			mark("8-bit or NUL byte")
			break
		}
	}
	for _, l := range bytes.Split(body, []byte("\n")) {
		if len(l) > 65536 {
			mark("line longer than 64 KiB")
			break
		}
	}
	o.NonTrivial = nt
}

func httpGet(u string) (int, []byte, error) {
	resp, err := http.Get(u)
	if err != nil {
		return 0, nil, err
	}
	defer resp.Body.Close()
	b, err := io.ReadAll(resp.Body)
	return resp.StatusCode, b, err
}

func run(c Case) *hx.Outcome {
	o := &hx.Outcome{}
	body := c.body()
	classify(o, body)
	cfg := hx.DefaultCfg()
	cfg.Backend = c.Backend
	cfg.MaxMessageBytes = 64 << 20
	var filler strings.Builder
	for i := 0; i < c.Hdrs; i++ {
		fmt.Fprintf(&filler, "X-Filler-%05d: %s\r\n", i, strings.Repeat("f", 53))
	}
	if c.Hdrs > 0 {
		o.Class(fmt.Sprintf("header block of %d KiB", filler.Len()>>10))
	}
	data := append([]byte(strings.Repeat("\r\n", c.Lead)+"Subject: c02\r\nFrom: a@a.test\r\n"+filler.String()+"\r\n"), body...)
	wantFrom, wantSubject := "a@a.test", "c02"
	if c.Lead > 0 {
		wantFrom, wantSubject = "s@a.test", "" // no header block: the envelope sender stands in
		if c.LongEnv {
			wantFrom = strings.Repeat("s", 64) + "@" + strings.Repeat(strings.Repeat("h", 48)+".", 4) + "example"
		}
		o.Class("message starts with an empty line")
	}
	wire, tx := hx.DotStuff(data)
	if c.Limit != nil && hx.StdlibInverts(wire, tx) {
		cfg.MaxMessageBytes = len(data) + *c.Limit
		if cfg.MaxMessageBytes < 1 {
			cfg.MaxMessageBytes = 1
		}
		o.Class("size limit close to the message size")
	}
	w, err := hx.NewWorld(cfg)
	if err != nil {
		o.Failf(pid+":harness", "world: %v", err)
		return o
	}
	defer w.Close()
	// Recorded finding: the DATA reader does not treat the byte after an empty bare-LF line as
	// a line start, so a dot there (or the terminator) is decoded wrongly whatever stuffing
	// rule the client uses. Such cases are set aside (counted) and judged under that key.
	affected := !hx.StdlibInverts(wire, tx)
	if affected {
		o.Class("excluded: dot after an empty bare-LF line (recorded finding)")
		o.NonTrivial = false
	}
	cl, _, err := w.DialSMTP()
	if err != nil {
		o.Failf(pid+":harness", "dial: %v", err)
		return o
	}
	helo, sender := "c.test", "s@a.test"
	if c.LongEnv {
		label := strings.Repeat("h", 48)
		helo = label + "." + label + "." + label + "." + label + ".test"
		sender = strings.Repeat("s", 64) + "@" + label + "." + label + "." + label + "." + label + ".example"
		o.Class("long envelope (trace headers over 512 bytes)")
	}
	cmds := []string{"EHLO " + helo, "MAIL FROM:<" + sender + ">", "RCPT TO:<box@a.test>"}
	var toList []*mailAddr
	toList = append(toList, &mailAddr{Address: "box@a.test"})
	for i := 1; i < c.NRcpt; i++ {
		cmds = append(cmds, fmt.Sprintf("RCPT TO:<box%d@a.test>", i))
		toList = append(toList, &mailAddr{Address: fmt.Sprintf("box%d@a.test", i)})
	}
	for _, s := range append(cmds, "DATA") {
		if r, err := cl.Cmd(s); err != nil || (r.Class() != 2 && r.Code != 354) {
			o.Failf(pid+":harness", "%q: %v %v", s, r, err)
			_ = cl.Close()
			return o
		}
	}
	t0 := time.Now()
	r, err := cl.Data(data)
	_ = cl.Close()
	if affected {
		if err != nil || r.Code != 250 {
			o.Failf(pid+":dot-after-bare-lf-empty-line", "terminator after an empty bare-LF line not recognised: %v (err %v)", r, err)
			return o
		}
		ms, _ := w.Store.GetMessages("box")
		if len(ms) == 1 {
			src, _ := hx.ReadSource(ms[0])
			if _, b, ok := hx.SplitTrace(src); !ok || !bytes.Equal(hx.Canon(b), hx.Canon(tx)) {
				o.Failf(pid+":dot-after-bare-lf-empty-line", "a dot following an empty line that ends in a bare LF is not un-stuffed: stored content differs from the transmitted data")
			}
		}
		return o
	}
	if err == nil && r.Code == 552 && cfg.MaxMessageBytes < len(data) {
		// refused as too large (how the size is counted is C06's business): nothing may be stored
		o.Class("refused at the size limit")
		n := 0
		_ = w.Store.VisitMailboxes(func(ms []storage.Message) bool { n += len(ms); return true })
		if n != 0 {
			o.Failf(pid+":stored-after-552", "a %d-byte message was refused with 552 under a limit of %d, yet %d message(s) were stored", len(data), cfg.MaxMessageBytes, n)
		}
		return o
	}
	if err != nil || r.Code != 250 {
		o.Failf(pid+":message-refused", "a %d-byte message (limit %d) was answered %v (err %v)", len(data), cfg.MaxMessageBytes, r, err)
		return o
	}
	// the store itself
	model := hx.NewEModel()
	for i := 0; i < len(toList); i++ {
		name := "box"
		if i > 0 {
			name = fmt.Sprintf("box%d", i)
		}
		// every recipient's copy must carry the complete transmitted data
		model.Add(&hx.EMsg{Mailbox: name, From: (&hx.Addr{Address: wantFrom}).Mail(), To: toList,
			Subject: wantSubject, Sender: sender, Helo: helo, Data: tx, NotBefo: t0, NotAfter: time.Now()})
	}
	if err := hx.CmpE2E(w.Store, model, nil); err != nil {
		o.Failf(pid+":store-content", "%v", err)
		return o
	}
	ms, _ := w.Store.GetMessages("box")
	sm := ms[0]
	src, _ := hx.ReadSource(sm)
	id := sm.ID()
	// REST source and web UI source: byte-equal
	for name, u := range map[string]string{"REST": "/api/v1/mailbox/box/" + id + "/source", "web UI": "/serve/mailbox/box/" + id + "/source"} {
		code, b, err := httpGet(w.HTTP.URL + u)
		if err != nil || code != 200 {
			o.Failf(pid+":http-source", "%s source: status %d err %v", name, code, err)
			continue
		}
		if !bytes.Equal(b, src) {
			o.Failf(pid+":http-source-differs", "%s source (%d bytes) differs from the stored source (%d bytes)%s", name, len(b), len(src), firstDiff(b, src))
		}
	}
	// REST list size
	if code, b, err := httpGet(w.HTTP.URL + "/api/v1/mailbox/box"); err == nil && code == 200 {
		var l []struct {
			Size int64 `json:"size"`
		}
		if json.Unmarshal(b, &l) != nil || len(l) != 1 || l[0].Size != int64(len(src)) {
			o.Failf(pid+":rest-size", "REST list reports %s, stored source has %d bytes", string(b), len(src))
		}
	} else {
		o.Failf(pid+":http-source", "REST list: %d %v", code, err)
	}
	// POP3
	pc, _, err := w.DialPOP3()
	if err != nil {
		o.Failf(pid+":harness", "pop3 dial: %v", err)
		return o
	}
	defer pc.Close()
	if pr, err := pc.Login("box"); err != nil || !pr.OK {
		o.Failf(pid+":harness", "pop3 login: %v %v", pr, err)
		return o
	}
	if st, err := pc.Cmd("STAT", false); err != nil || st.Status != fmt.Sprintf("+OK 1 %d", len(src)) {
		o.Failf(pid+":pop3-size", "STAT says %q, stored source has %d bytes (err %v)", st.Status, len(src), err)
	}
	if ls, err := pc.Cmd("LIST 1", false); err != nil || ls.Status != fmt.Sprintf("+OK 1 %d", len(src)) {
		o.Failf(pid+":pop3-size", "LIST 1 says %q, stored source has %d bytes (err %v)", ls.Status, len(src), err)
	}
	nlines := bytes.Count(src, []byte("\n")) + 1
	for _, cmd := range []string{"RETR 1", fmt.Sprintf("TOP 1 %d", nlines)} {
		pr, err := pc.Cmd(cmd, true)
		if err != nil || !pr.OK {
			o.Failf(pid+":pop3-retr", "%s: %q err %v", cmd, pr.Status, err)
			return o
		}
		if !pr.WellFormed {
			o.Failf(pid+":pop3-retr", "%s: malformed reply", cmd)
		}
		got := hx.Canon(hx.JoinLines(pr.Lines))
		want := hx.Canon(src)
		if !bytes.Equal(got, want) {
			o.Failf(pid+":pop3-content-differs", "%s returned %d bytes, stored source canonically %d bytes%s", strings.Fields(cmd)[0], len(got), len(want), firstDiff(got, want))
		}
		// the reply must be exactly one multi-line response: the next command answers normally
		if np, err := pc.Cmd("NOOP", false); err != nil || !np.OK {
			o.Failf(pid+":pop3-extra-reply", "after %s the next command was answered %q (err %v): stray lines after the terminating dot", cmd, np.Status, err)
			return o
		}
	}
	_, _ = pc.Cmd("QUIT", false)
	return o
}

func firstDiff(a, b []byte) string {
	n := len(a)
	if len(b) < n {
		n = len(b)
	}
	for i := 0; i < n; i++ {
		if a[i] != b[i] {
			lo := i - 10
			if lo < 0 {
				lo = 0
			}
			hi := i + 10
			return fmt.Sprintf("; first difference at byte %d: got %q want %q", i, a[lo:min(hi, len(a))], b[lo:min(hi, len(b))])
		}
	}
	return fmt.Sprintf("; one is a prefix of the other (%d vs %d bytes)", len(a), len(b))
}

func min(a, b int) int {
	if a < b {
		return a
	}
	return b
}

// ---- overlap: content stays with its own message when sessions overlap ----

// OCase: several sessions send several messages back to back; Sizes[s][k] is the body size
// of the k-th message of session s. Bodies are lines that name their session and message.
type OCase struct {
	Backend string  `json:"backend"`
	Sizes   [][]int `json:"sizes"`
	Same    bool    `json:"same_mailbox"` // every message goes to one mailbox (one hash lock in the file store)
}

func overlapBody(si, ti, n int) []byte {
	line := []byte(fmt.Sprintf("S%02dT%02d.abcdefghijklmnopqrstuvwxyz0123456789.\r\n", si, ti))
	return bytes.Repeat(line, n/len(line)+1)[:n/len(line)*len(line)]
}

var propOverlap = hx.Prop[OCase]{
	ID: pid, Name: "overlap",
	Rule: "2-8 SMTP sessions run freely at once, each sending 2-5 messages of 0.1-200 KB back to back (every body line names its session and message) to " +
		"one shared mailbox or to a mailbox per session, mem or file store; afterwards every acknowledged message must be stored with exactly its own " +
		"transmitted content, sender and size (matched by sender, compared as in the main check); non-trivial = at least 3 sessions and a message " +
		">= 20 KB; distinct = distinct case JSON",
	Quick: 40, Thorough: 400,
	Gen: func(t *rapid.T) OCase {
		sz := rapid.SampledFrom([]int{100, 1000, 5000, 20000, 70000, 200000})
		return OCase{Backend: rapid.SampledFrom([]string{"file", "file", "mem"}).Draw(t, "backend"),
			Sizes: rapid.SliceOfN(rapid.SliceOfN(sz, 2, 5), 2, 8).Draw(t, "sizes"), Same: rapid.Bool().Draw(t, "same")}
	},
	Run: func(c OCase) *hx.Outcome {
		o := &hx.Outcome{}
		cfg := hx.DefaultCfg()
		cfg.Backend = c.Backend
		cfg.MaxMessageBytes = 64 << 20
		cfg.NoHTTP = true
		w, err := hx.NewWorld(cfg)
		if err != nil {
			o.Failf(pid+":harness", "world: %v", err)
			return o
		}
		defer w.Close()
		var sessions [][]hx.PTxn
		big := false
		for si, l := range c.Sizes {
			var txns []hx.PTxn
			for ti, n := range l {
				rc := fmt.Sprintf("o%d@a.test", si)
				if c.Same {
					rc = "shared@a.test"
				}
				txns = append(txns, hx.PTxn{Rcpts: []string{rc}, Body: overlapBody(si, ti, n)})
				if n >= 20000 {
					big = true
				}
			}
			sessions = append(sessions, txns)
		}
		acked, problems := hx.RunParallel(w, sessions, false)
		for _, p := range problems {
			o.Failf(pid+":overlap-session", "%s", p)
		}
		if o.Failed() {
			return o
		}
		model := hx.NewEModel()
		for _, e := range acked {
			model.Add(e)
		}
		hx.SortForUnordered(w.Store, model)
		if err := hx.CmpE2E(w.Store, model, nil); err != nil {
			o.Failf(pid+":overlap-content", "[%s, %d sessions, one mailbox=%v] %v", c.Backend, len(c.Sizes), c.Same, err)
		}
		// several readers of one message at once (a slow POP3 download while the web UI shows the
		// source): each must get the whole message
		if !o.Failed() {
			box := "shared"
			if !c.Same {
				box = "o0"
			}
			ms, _ := w.Store.GetMessages(box)
			for i, sm := range ms {
				if i >= 3 {
					break
				}
				whole, err := hx.ReadSource(sm)
				if err != nil {
					o.Failf(pid+":overlap-content", "ReadSource: %v", err)
					break
				}
				var rwg sync.WaitGroup
				var rmu sync.Mutex
				var bad []string
				for r := 0; r < 4; r++ {
					rwg.Add(1)
					go func(r int) {
						defer rwg.Done()
						rd, err := sm.Source()
						if err != nil {
							rmu.Lock()
							bad = append(bad, err.Error())
							rmu.Unlock()
							return
						}
						defer rd.Close()
						var got []byte
						buf := make([]byte, 512+r*301)
						for {
							n, err := rd.Read(buf)
							got = append(got, buf[:n]...)
							if err != nil {
								break
							}
							runtime.Gosched()
						}
						if !bytes.Equal(got, whole) {
							rmu.Lock()
							bad = append(bad, fmt.Sprintf("reader %d got %d of %d bytes", r, len(got), len(whole)))
							rmu.Unlock()
						}
					}(r)
				}
				rwg.Wait()
				if len(bad) > 0 {
					o.Failf(pid+":concurrent-readers", "[%s] four simultaneous readers of message %s/%s (%d bytes): %v", c.Backend, box, sm.ID(), len(whole), bad)
					break
				}
			}
		}
		o.NonTrivial = len(c.Sizes) >= 3 && big
		o.Class("backend " + c.Backend)
		return o
	},
}

// ---- box: content stays with its message while the mailbox around it changes ----

// BCase: deliveries (body size) and deletions (negative: -(k+1) deletes the k-th message
// currently in the mailbox, modulo its length) on one mailbox, all within moments.
type BCase struct {
	Backend string `json:"backend"`
	Cap     int    `json:"cap"`
	Steps   []int  `json:"steps"`
}

var propBox = hx.Prop[BCase]{
	ID: pid, Name: "box",
	Rule: "one mailbox (mem or file, cap 0/3) receives 3-14 SMTP deliveries whose bodies (one line of 0 to 70000 bytes) name their sequence number, interleaved with REST deletions " +
		"of the first, a middle or the last message, all within the same second or two; afterwards every message still listed must be, on the store, " +
		"the REST source endpoint and POP3 RETR, exactly the content transmitted for it, with a matching size; non-trivial = a deletion of a " +
		"non-last message is followed by a delivery; distinct = distinct case JSON",
	Quick: 60, Thorough: 600,
	Gen: func(t *rapid.T) BCase {
		c := BCase{Backend: rapid.SampledFrom([]string{"file", "file", "mem"}).Draw(t, "backend"), Cap: rapid.SampledFrom([]int{0, 0, 3}).Draw(t, "cap")}
		n := rapid.IntRange(3, 14).Draw(t, "n")
		for i := 0; i < n; i++ {
			if i >= 2 && rapid.IntRange(0, 2).Draw(t, "del") == 0 {
				c.Steps = append(c.Steps, -1-rapid.IntRange(0, 5).Draw(t, "which"))
			} else {
				c.Steps = append(c.Steps, rapid.SampledFrom([]int{0, 10, 200, 3000, 3000, 70000}).Draw(t, "size"))
			}
		}
		return c
	},
	Run: func(c BCase) *hx.Outcome {
		o := &hx.Outcome{}
		cfg := hx.DefaultCfg()
		cfg.Backend, cfg.Cap = c.Backend, c.Cap
		w, err := hx.NewWorld(cfg)
		if err != nil {
			o.Failf(pid+":harness", "world: %v", err)
			return o
		}
		defer w.Close()
		cl, _, err := w.DialSMTP()
		if err != nil {
			o.Failf(pid+":harness", "dial: %v", err)
			return o
		}
		defer cl.Close()
		if r, err := cl.Cmd("EHLO c.test"); err != nil || r.Code != 250 {
			o.Failf(pid+":harness", "EHLO %v %v", r, err)
			return o
		}
		var want []*hx.EMsg // what the mailbox should list, oldest first
		delThenAdd, deleted := false, false
		for k, st := range c.Steps {
			if st < 0 {
				if len(want) == 0 {
					continue
				}
				j := (-1 - st) % len(want)
				ms, err := w.Store.GetMessages("box")
				if err != nil || len(ms) != len(want) {
					o.Failf(pid+":box-listing", "step %d: the mailbox lists %d messages, expected %d (err %v)", k, len(ms), len(want), err)
					return o
				}
				req, _ := http.NewRequest("DELETE", w.HTTP.URL+"/api/v1/mailbox/box/"+ms[j].ID(), nil)
				resp, err := http.DefaultClient.Do(req)
				if err != nil || resp.StatusCode != 200 {
					o.Failf(pid+":harness", "step %d: REST delete: %v %v", k, resp, err)
					return o
				}
				resp.Body.Close()
				if j < len(want)-1 {
					deleted = true
				}
				want = append(append([]*hx.EMsg{}, want[:j]...), want[j+1:]...)
				continue
			}
			if deleted {
				delThenAdd = true
			}
			subject := fmt.Sprintf("box message %d", k)
			data := []byte(fmt.Sprintf("Subject: %s\r\nFrom: a@a.test\r\n\r\n%s\r\n", subject, strings.Repeat(fmt.Sprintf("<%d>", k), st/3+1)))
			for _, s := range []string{"MAIL FROM:<s@a.test>", "RCPT TO:<box@a.test>", "DATA"} {
				if r, err := cl.Cmd(s); err != nil || (r.Class() != 2 && r.Code != 354) {
					o.Failf(pid+":harness", "step %d: %q: %v %v", k, s, r, err)
					return o
				}
			}
			t0 := time.Now()
			if r, err := cl.Data(data); err != nil || r.Code != 250 {
				o.Failf(pid+":message-refused", "step %d: a %d-byte message was answered %v (err %v)", k, len(data), r, err)
				return o
			}
			_, tx := hx.DotStuff(data)
			want = append(want, &hx.EMsg{Mailbox: "box", From: (&hx.Addr{Address: "a@a.test"}).Mail(), To: []*mailAddr{{Address: "box@a.test"}},
				Subject: subject, Sender: "s@a.test", Helo: "c.test", Data: tx, NotBefo: t0, NotAfter: time.Now()})
			if c.Cap > 0 && len(want) > c.Cap {
				want = want[len(want)-c.Cap:]
			}
		}
		model := hx.NewEModel()
		for _, e := range want {
			model.Add(e)
		}
		if err := hx.CmpE2E(w.Store, model, []string{"box"}); err != nil {
			o.Failf(pid+":box-content", "[%s cap=%d] steps %v: %v", c.Backend, c.Cap, c.Steps, err)
			return o
		}
		ms, _ := w.Store.GetMessages("box")
		pc, _, err := w.DialPOP3()
		if err != nil {
			o.Failf(pid+":harness", "pop3 dial: %v", err)
			return o
		}
		defer pc.Close()
		if pr, err := pc.Login("box"); err != nil || !pr.OK {
			o.Failf(pid+":harness", "pop3 login: %v %v", pr, err)
			return o
		}
		for i, sm := range ms {
			src, _ := hx.ReadSource(sm)
			code, b, err := httpGet(w.HTTP.URL + "/api/v1/mailbox/box/" + sm.ID() + "/source")
			if err != nil || code != 200 || !bytes.Equal(b, src) {
				o.Failf(pid+":http-source-differs", "[%s] message #%d (%s): REST source status %d err %v, %d bytes, stored source %d bytes%s", c.Backend, i, sm.ID(), code, err, len(b), len(src), firstDiff(b, src))
			}
			pr, err := pc.Cmd(fmt.Sprintf("RETR %d", i+1), true)
			if err != nil || !pr.OK {
				o.Failf(pid+":pop3-retr", "RETR %d: %q err %v", i+1, pr.Status, err)
				return o
			}
			if got, wantb := hx.Canon(hx.JoinLines(pr.Lines)), hx.Canon(src); !bytes.Equal(got, wantb) {
				o.Failf(pid+":pop3-content-differs", "[%s] RETR %d returned %d bytes, stored source canonically %d bytes%s", c.Backend, i+1, len(got), len(wantb), firstDiff(got, wantb))
			}
		}
		o.NonTrivial = delThenAdd
		o.Class("backend " + c.Backend)
		return o
	},
}

func TestProp(t *testing.T)    { prop.Check(t); propOverlap.Check(t); propBox.Check(t) }
func TestRegress(t *testing.T) { prop.Regress(t); propOverlap.Regress(t); propBox.Regress(t) }
func TestReplay(t *testing.T) {
	if *hx.ReplayPath == "" {
		t.Skip("no -replay")
	}
	if !prop.Replay(t, *hx.ReplayPath) && !propOverlap.Replay(t, *hx.ReplayPath) && !propBox.Replay(t, *hx.ReplayPath) {
		t.Fatalf("no prop matches %s", *hx.ReplayPath)
	}
}
func TestMain(m *testing.M) { hx.Main(m) }

// FuzzDataRoundTrip: raw bytes as the message body through the same oracle.
func FuzzDataRoundTrip(f *testing.F) {
	for _, s := range []string{"", "hello\r\n", ".\r\n", "a\r\n.\r\nb\r\n", "\n.\n", "\r\r\n", "x\r", ".", "..\n...\r\n", "\x00\xff\r\n", "a\n.b\r\n.\rc\r\n"} {
		f.Add([]byte(s))
	}
	f.Fuzz(func(t *testing.T, raw []byte) {
		if len(raw) > 1<<16 {
			return
		}
		if raw == nil {
			raw = []byte{}
		}
		o := run(Case{Backend: "mem", Raw: raw})
		for _, v := range o.Viols {
			if _, known := hx.Known()[v.Key]; !known {
				t.Fatalf("%s", v.Error())
			}
		}
	})
}
