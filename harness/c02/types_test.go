package c02

import "net/mail"

type mailAddr = mail.Address
