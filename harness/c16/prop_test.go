package c16

import (
	"fmt"
	"io"
	"runtime"
	"sort"
	"strings"
	"sync"
	"sync/atomic"
	"testing"
	"time"

	"github.com/inbucket/inbucket/v3/pkg/extension"
	"github.com/inbucket/inbucket/v3/pkg/extension/event"
	"github.com/inbucket/inbucket/v3/pkg/message"
	"github.com/inbucket/inbucket/v3/pkg/policy"
	"github.com/inbucket/inbucket/v3/pkg/storage"
	"pgregory.net/rapid"
	"verif/harness/hx"
)

const pid = "C16"

type Op struct {
	K    string `json:"k"` // deliver remove purge scan failadd (a store-level delivery whose content cannot be read to the end)
	Box  int    `json:"box"`
	N    int    `json:"n"`    // remove: which live message; scan: cutoff selector
	Size int    `json:"size"` // deliver: body bytes
	// More lists further recipients of the same Deliver call: 0-2 = that mailbox,
	// 3 = the first mailbox again under a +tag (two copies into one mailbox).
	More []int `json:"more,omitempty"`
}

type Case struct {
	Backend string `json:"backend"`
	Cap     int    `json:"cap"`
	MaxKB   int    `json:"maxkb"`
	Ops     []Op   `json:"ops"`
}

var boxes = []string{"one", "two", "three"}

var opGen = rapid.Custom(func(t *rapid.T) Op {
	k := rapid.SampledFrom([]string{"deliver", "deliver", "deliver", "deliver", "deliver", "remove", "remove", "purge", "scan", "failadd", "recap"}).Draw(t, "k")
	op := Op{K: k, Box: rapid.IntRange(0, 2).Draw(t, "box"), N: rapid.IntRange(0, 20).Draw(t, "n"),
		Size: rapid.SampledFrom([]int{1, 50, 200, 400, 700, 1200}).Draw(t, "size")}
	if k == "deliver" && rapid.IntRange(0, 2).Draw(t, "multi") == 0 {
		op.More = rapid.SliceOfN(rapid.IntRange(0, 3), 1, 3).Draw(t, "more")
	}
	return op
})

type key struct{ mailbox, id string }

type recorder struct {
	mu      sync.Mutex
	stored  []key
	deleted []key
	merged  []mev // both kinds in the order the listener was called (one FIFO per listener name)
	size    map[key]int64
}

type mev struct {
	del bool
	k   key
}

func (r *recorder) snapshot() (s, d []key) {
	r.mu.Lock()
	defer r.mu.Unlock()
	return append([]key{}, r.stored...), append([]key{}, r.deleted...)
}

func live(st storage.Store) (map[key]bool, error) {
	m := map[key]bool{}
	err := st.VisitMailboxes(func(ms []storage.Message) bool {
		for _, x := range ms {
			m[key{x.Mailbox(), x.ID()}] = true
		}
		return true
	})
	return m, err
}

// judge compares the event record with the store; final=false only says whether it is
// already consistent (used while waiting for asynchronous delivery).
func judge(stored, deleted []key, lv map[key]bool, deliveries map[string]int) string {
	sset := map[key]int{}
	for _, k := range stored {
		sset[k]++
	}
	per := map[string]int{}
	for k, n := range sset {
		if n > 1 {
			return fmt.Sprintf("stored event for %v delivered %d times", k, n)
		}
		per[k.mailbox]++
	}
	for mb, n := range deliveries {
		if per[mb] != n {
			return fmt.Sprintf("mailbox %q: %d deliveries but %d stored events", mb, n, per[mb])
		}
	}
	for mb, n := range per {
		if deliveries[mb] != n {
			return fmt.Sprintf("mailbox %q: %d stored events but %d deliveries", mb, n, deliveries[mb])
		}
	}
	dset := map[key]int{}
	for _, k := range deleted {
		dset[k]++
	}
	for k, n := range dset {
		if n > 1 {
			return fmt.Sprintf("deleted event for %v delivered %d times", k, n)
		}
		if sset[k] == 0 {
			return fmt.Sprintf("deleted event for %v which was never announced as stored", k)
		}
		if lv[k] {
			return fmt.Sprintf("deleted event for %v but the message is still in the store", k)
		}
	}
	for k := range sset {
		if dset[k] == 0 && !lv[k] {
			return fmt.Sprintf("message %v left the store but no deleted event was emitted", k)
		}
	}
	for k := range lv {
		if sset[k] == 0 {
			return fmt.Sprintf("message %v is in the store but no stored event was emitted", k)
		}
	}
	return ""
}

var prop = hx.Prop[Case]{
	ID: pid, Name: "events",
	Rule: "rapid-generated histories of 5-60 deliveries (through the manager), deliveries that fail in the store (content reader error), removes, purges, retention scans and (file) reopening the store with another cap on mem (cap 0/1/2/3 x " +
		"maxkb 0/1/2) and file (cap) stores, with listeners registered through the public extension.Host API on both after-events; oracle " +
		"(order-free, after quiescence): exactly one stored event per delivery with distinct (mailbox,id); every deleted event names a " +
		"message announced as stored, at most once, that is no longer in the store; stored minus deleted = exactly the messages " +
		"VisitMailboxes shows; non-trivial = the history made an eviction (cap or size) or a retention delete happen",
	Quick: 300, Thorough: 2000,
	Gen: func(t *rapid.T) Case {
		c := Case{Backend: rapid.SampledFrom([]string{"mem", "mem", "file"}).Draw(t, "backend"), Cap: rapid.SampledFrom([]int{0, 1, 2, 3}).Draw(t, "cap")}
		if c.Backend == "mem" {
			c.MaxKB = rapid.SampledFrom([]int{0, 1, 2}).Draw(t, "maxkb")
		}
		c.Ops = rapid.SliceOfN(opGen, 5, 60).Draw(t, "ops")
		return c
	},
	Run: run,
}

func run(c Case) *hx.Outcome {
	o := &hx.Outcome{}
	cfg := hx.DefaultCfg()
	cfg.Backend, cfg.Cap, cfg.MaxKB, cfg.NoHTTP = c.Backend, c.Cap, c.MaxKB, true
	cfg.MonitorHistory = 8
	w, err := hx.NewWorld(cfg)
	if err != nil {
		o.Failf(pid+":harness", "world: %v", err)
		return o
	}
	defer w.Close()
	rec := &recorder{size: map[key]int64{}}
	w.Host.Events.AfterMessageStored.AddListener("verif", func(m event.MessageMetadata) {
		rec.mu.Lock()
		rec.size[key{m.Mailbox, m.ID}] = m.Size
		rec.stored = append(rec.stored, key{m.Mailbox, m.ID})
		rec.merged = append(rec.merged, mev{false, key{m.Mailbox, m.ID}})
		rec.mu.Unlock()
	})
	w.Host.Events.AfterMessageDeleted.AddListener("verif", func(m event.MessageMetadata) {
		rec.mu.Lock()
		rec.deleted = append(rec.deleted, key{m.Mailbox, m.ID})
		rec.merged = append(rec.merged, mev{true, key{m.Mailbox, m.ID}})
		rec.mu.Unlock()
	})
	deliveries := map[string]int{}
	origin, _ := w.Policy.ParseOrigin("s@a.test")
	evicting, scanned := false, false
	for i, op := range c.Ops {
		box := boxes[op.Box]
		switch op.K {
		case "deliver":
			rc, _ := w.Policy.NewRecipient(box + "@a.test")
			rcpts := []*policy.Recipient{rc}
			for _, m := range op.More {
				name := box + "+again"
				if m < 3 {
					name = boxes[m]
				}
				r2, _ := w.Policy.NewRecipient(name + "@a.test")
				rcpts = append(rcpts, r2)
			}
			before, _ := w.Store.GetMessages(box)
			body := "Subject: e\r\n\r\n" + strings.Repeat("x", op.Size) + "\r\n"
			if err := w.Manager.Deliver(origin, rcpts, "Received: from h ([1.1.1.1]) by d\r\n", []byte(body)); err != nil {
				o.Failf(pid+":harness", "step %d: Deliver: %v", i, err)
				return o
			}
			for _, r := range rcpts {
				deliveries[r.Mailbox]++
			}
			if len(rcpts) > 1 {
				o.Class("delivery to several recipients")
			}
			after, _ := w.Store.GetMessages(box)
			if len(after) <= len(before) {
				evicting = true
			}
		case "recap":
			// the server is restarted on the same directory with another per-mailbox cap (file store):
			// mailboxes may now hold more than the cap, the next delivery evicts several at once
			if c.Backend == "file" {
				newCap := []int{1, 2, 3, 0, 1}[op.N%5]
				w.Store = hx.NewFile(w.Host, w.Dir, newCap)
				w.Manager.Store = w.Store
				o.Class("file store reopened with another cap")
			}
		case "failadd":
			// the content reader fails half way: the store must refuse the delivery, and a refused
			// delivery is not an event (nor is anything it would have evicted gone)
			d := &message.Delivery{
				Meta:   event.MessageMetadata{Mailbox: box, Date: time.Now(), Subject: "fails", Size: int64(op.Size)},
				Reader: io.MultiReader(strings.NewReader(strings.Repeat("y", op.Size/2)), hx.FailingReader{}),
			}
			if id, err := w.Store.AddMessage(d); err == nil {
				o.Failf(pid+":failed-delivery-accepted", "step %d: AddMessage whose reader failed returned id %q and no error", i, id)
			}
			o.Class("a delivery that fails in the store")
		case "remove":
			ms, _ := w.Store.GetMessages(box)
			if len(ms) > 0 {
				_ = w.Store.RemoveMessage(box, ms[op.N%len(ms)].ID())
			} else {
				_ = w.Store.RemoveMessage(box, "nope")
			}
		case "purge":
			_ = w.Store.PurgeMessages(box)
		case "scan":
			// expire everything delivered so far except (sometimes) nothing: dates are "now", so a
			// cutoff slightly in the future expires all, one in the past none
			cut := time.Now().Add(time.Hour)
			if op.N%3 == 0 {
				cut = time.Now().Add(-time.Hour)
			}
			lv, _ := live(w.Store)
			if len(lv) > 0 && op.N%3 != 0 {
				scanned = true
			}
			if _, err := hx.DoScan(w.Store, hx.NewModel(0, 0), cut); err != nil {
				o.Failf(pid+":scan-error", "step %d: retention scan: %v", i, err)
			}
		}
	}
	// quiescence: wait until the record is consistent (or 10 s), then a grace period for duplicates
	total := 0
	for _, n := range deliveries {
		total += n
	}
	var msg string
	deadline := time.Now().Add(10 * time.Second)
	for {
		s, d := rec.snapshot()
		lv, err := live(w.Store)
		if err != nil {
			o.Failf(pid+":store", "VisitMailboxes: %v", err)
			return o
		}
		msg = judge(s, d, lv, deliveries)
		if msg == "" || time.Now().After(deadline) {
			break
		}
		time.Sleep(2 * time.Millisecond)
	}
	if msg == "" {
		time.Sleep(30 * time.Millisecond)
		s, d := rec.snapshot()
		lv, _ := live(w.Store)
		msg = judge(s, d, lv, deliveries)
	}
	if msg != "" {
		s, d := rec.snapshot()
		o.Failf(pid+":event-accounting", "[%s cap=%d maxkb=%d] %s (stored events %d, deleted events %d, deliveries %d)", c.Backend, c.Cap, c.MaxKB, msg, len(s), len(d), total)
	}
	if msg == "" {
		// The monitor hub is a listener like ours: what it retains must be the most recent
		// MonitorHistory stored messages, in emission order, minus the deleted ones. Both
		// listeners are fed in emission order, so our own record is the reference.
		time.Sleep(5 * time.Millisecond)
		w.Quiesce()
		hl := &histListener{}
		w.Hub.AddListener(hl)
		w.Hub.Sync()
		w.Hub.RemoveListener(hl)
		rec.mu.Lock()
		merged := append([]mev{}, rec.merged...)
		rec.mu.Unlock()
		// causal order: a message's stored event comes before its deleted event
		seenStored := map[key]bool{}
		for _, e := range merged {
			if !e.del {
				seenStored[e.k] = true
			} else if !seenStored[e.k] {
				// the recorded finding is the message larger than the whole size limit, evicted
				// inside AddMessage; any other message announced as deleted first is not covered by it
				k := pid + ":event-causality"
				rec.mu.Lock()
				sz := rec.size[e.k]
				rec.mu.Unlock()
				if c.Backend == "mem" && c.MaxKB > 0 && sz > int64(c.MaxKB)*1024 {
					k = pid + ":deleted-before-stored"
				}
				o.Failf(k, "[%s cap=%d maxkb=%d] the deleted event of %v (%d bytes) was delivered before its stored event", c.Backend, c.Cap, c.MaxKB, e.k, sz)
				break
			}
		}
		// what the hub does with that very stream: window of the last N stored, a delete blanks
		// an entry only if it is in the window when the delete arrives
		type slot struct {
			k    key
			gone bool
		}
		var win []slot
		for _, e := range merged {
			if !e.del {
				win = append(win, slot{k: e.k})
				if len(win) > cfg.MonitorHistory {
					win = win[1:]
				}
				continue
			}
			for i := range win {
				if win[i].k == e.k && !win[i].gone {
					win[i].gone = true
					break
				}
			}
		}
		var want []string
		for _, sl := range win {
			if !sl.gone {
				want = append(want, sl.k.mailbox+"/"+sl.k.id)
			}
		}
		hl.mu.Lock()
		got := append([]string{}, hl.got...)
		hl.mu.Unlock()
		if strings.Join(got, " ") != strings.Join(want, " ") {
			o.Failf(pid+":hub-history", "[%s cap=%d maxkb=%d] the monitor hub retains %v, the event stream implies %v", c.Backend, c.Cap, c.MaxKB, got, want)
		}
	}
	o.NonTrivial = evicting || scanned
	if evicting {
		o.Class("eviction by cap or size")
	}
	if scanned {
		o.Class("retention delete")
	}
	o.Class("backend " + c.Backend)
	return o
}

type histListener struct {
	mu  sync.Mutex
	got []string
}

func (h *histListener) Receive(m event.MessageMetadata) error {
	h.mu.Lock()
	h.got = append(h.got, m.Mailbox+"/"+m.ID)
	h.mu.Unlock()
	return nil
}

func (h *histListener) Delete(mailbox, id string) error { return nil }

// ---- (b) serialisation probe ----

type PCase struct {
	Backend string `json:"backend"`
	BlockAt int    `json:"block_at"` // which invocation of the listener blocks (1-based)
	Ops     []Op   `json:"ops"`      // operations issued while it is blocked and after
}

var propProbe = hx.Prop[PCase]{
	ID: pid, Name: "probe",
	Rule: "a listener registered under one name on both after-event brokers (as msghub and the Lua host are) blocks in its n-th invocation " +
		"while 1-6 further deliveries/removals are issued, then is released; enter/exit counters detect re-entry without timing (absence " +
		"concluded after a 150 ms grace), and after release the observed order must be emission order: stored(m) before deleted(m), " +
		"same-mailbox deliveries in arrival order; non-trivial = at least two events overlap the blocked invocation",
	Quick: 100, Thorough: 1000,
	Gen: func(t *rapid.T) PCase {
		return PCase{Backend: rapid.SampledFrom([]string{"mem", "file"}).Draw(t, "backend"), BlockAt: rapid.IntRange(1, 2).Draw(t, "at"),
			Ops: rapid.SliceOfN(rapid.Custom(func(t *rapid.T) Op {
				return Op{K: rapid.SampledFrom([]string{"deliver", "deliver", "remove"}).Draw(t, "k"), Box: rapid.IntRange(0, 1).Draw(t, "box")}
			}), 2, 7).Draw(t, "ops")}
	},
	Run: runProbe,
}

func runProbe(c PCase) *hx.Outcome {
	o := &hx.Outcome{}
	cfg := hx.DefaultCfg()
	cfg.Backend, cfg.NoHTTP = c.Backend, true
	w, err := hx.NewWorld(cfg)
	if err != nil {
		o.Failf(pid+":harness", "world: %v", err)
		return o
	}
	defer w.Close()
	var mu sync.Mutex
	inside, maxInside, calls := 0, 0, 0
	var order []string
	gate := make(chan struct{})
	blocked := make(chan struct{}, 1)
	enter := func(tag string) {
		mu.Lock()
		inside++
		calls++
		n := calls
		if inside > maxInside {
			maxInside = inside
		}
		order = append(order, tag)
		mu.Unlock()
		if n == c.BlockAt {
			blocked <- struct{}{}
			<-gate
		}
		mu.Lock()
		inside--
		mu.Unlock()
	}
	w.Host.Events.AfterMessageStored.AddListener("probe", func(m event.MessageMetadata) { enter("stored:" + m.Mailbox + "/" + m.ID) })
	w.Host.Events.AfterMessageDeleted.AddListener("probe", func(m event.MessageMetadata) { enter("deleted:" + m.Mailbox + "/" + m.ID) })
	origin, _ := w.Policy.ParseOrigin("s@a.test")
	var emitted []string // emission order as the harness knows it
	deliver := func(box string) {
		rc, _ := w.Policy.NewRecipient(box + "@a.test")
		_ = w.Manager.Deliver(origin, []*policy.Recipient{rc}, "Received: from h ([1.1.1.1]) by d\r\n", []byte("Subject: p\r\n\r\nx\r\n"))
		ms, _ := w.Store.GetMessages(box)
		emitted = append(emitted, "stored:"+box+"/"+ms[len(ms)-1].ID())
	}
	// prime so that the BlockAt-th invocation exists, then wait for it to block
	for i := 0; i < c.BlockAt; i++ {
		deliver(boxes[0])
	}
	select {
	case <-blocked:
	case <-time.After(hx.ReplyTimeout):
		o.Failf(pid+":event-lost", "the %d-th event never reached the listener", c.BlockAt)
		return o
	}
	for _, op := range c.Ops {
		box := boxes[op.Box]
		if op.K == "deliver" {
			deliver(box)
		} else {
			ms, _ := w.Store.GetMessages(box)
			if len(ms) > 0 {
				id := ms[len(ms)-1].ID()
				_ = w.Store.RemoveMessage(box, id)
				emitted = append(emitted, "deleted:"+box+"/"+id)
			}
		}
	}
	time.Sleep(150 * time.Millisecond) // grace: a broker that re-enters has done so by now
	mu.Lock()
	reentered := maxInside
	mu.Unlock()
	close(gate)
	deadline := time.Now().Add(10 * time.Second)
	for {
		mu.Lock()
		n := len(order)
		mu.Unlock()
		if n >= len(emitted) || time.Now().After(deadline) {
			break
		}
		time.Sleep(time.Millisecond)
	}
	mu.Lock()
	got := append([]string{}, order...)
	mu.Unlock()
	if reentered > 1 {
		o.Failf(pid+":listener-reentered", "the listener was invoked %d times concurrently: invoked for the next event while its previous invocation had not returned (documented contract: 'an event listener will not be called until the one before it completes')", reentered)
	}
	sg, se := append([]string{}, got...), append([]string{}, emitted...)
	sort.Strings(sg)
	sort.Strings(se)
	if strings.Join(sg, ",") != strings.Join(se, ",") {
		o.Failf(pid+":event-accounting", "events seen %v, emitted %v", got, emitted)
	} else if strings.Join(got, ",") != strings.Join(emitted, ",") {
		o.Failf(pid+":event-order", "events observed in order %v, emitted in order %v", got, emitted)
	}
	o.NonTrivial = len(emitted)-c.BlockAt >= 2
	return o
}

// ---- (c) the same messages removed by several parties at once ----

type RCase struct {
	Backend string `json:"backend"`
	Cap     int    `json:"cap"`
	MaxKB   int    `json:"maxkb"`
	N       int    `json:"n"`       // messages pre-delivered to one mailbox
	Workers []int  `json:"workers"` // per worker: 0 = remove every id in order, 1 = in reverse, 2 = purge, 3 = deliver more, 4 = mark seen, 5 = deliver 40, 6 = deliver 40 to a second mailbox
}

var propRace = hx.Prop[RCase]{
	ID: pid, Name: "racing",
	Rule: "5-25 messages are delivered to one mailbox (mem with cap/size limit, or file), then 3-8 goroutines at once remove every id in " +
		"order, in reverse, purge the mailbox, keep delivering (cap/size evictions), or mark every message seen: however the removals of one message overlap, " +
		"the conservation oracle must hold after quiescence - in particular each message's deleted event exactly once; one case in four is a " +
		"flood: mem with cap 1-3 and maxkb 1-2 at once, 4-8 workers delivering 40 messages each to the full mailbox or a second one; non-trivial = at " +
		"least two workers remove the same ids, or a flood",
	Quick: 60, Thorough: 600,
	Gen: func(t *rapid.T) RCase {
		c := RCase{Backend: rapid.SampledFrom([]string{"mem", "mem", "file"}).Draw(t, "backend"), Cap: rapid.SampledFrom([]int{0, 0, 10}).Draw(t, "cap"), N: rapid.IntRange(5, 25).Draw(t, "n")}
		if c.Backend == "mem" {
			c.MaxKB = rapid.SampledFrom([]int{0, 0, 4}).Draw(t, "maxkb")
		}
		c.Workers = rapid.SliceOfN(rapid.SampledFrom([]int{0, 0, 0, 1, 1, 2, 3, 4, 4}), 3, 8).Draw(t, "workers")
		if rapid.IntRange(0, 3).Draw(t, "flood") == 0 {
			// added in round m: both limits of the mem store at once and nothing but deliveries, to
			// the full mailbox and to a second one - cap evictions overlap the size enforcer's work
			c.Backend, c.Cap, c.MaxKB = "mem", rapid.SampledFrom([]int{1, 2, 3}).Draw(t, "fcap"), rapid.SampledFrom([]int{1, 2}).Draw(t, "fkb")
			c.Workers = rapid.SliceOfN(rapid.SampledFrom([]int{5, 5, 5, 6}), 4, 8).Draw(t, "fworkers")
		}
		return c
	},
	Run: func(c RCase) *hx.Outcome {
		o := &hx.Outcome{}
		cfg := hx.DefaultCfg()
		cfg.Backend, cfg.Cap, cfg.MaxKB, cfg.NoHTTP = c.Backend, c.Cap, c.MaxKB, true
		w, err := hx.NewWorld(cfg)
		if err != nil {
			o.Failf(pid+":harness", "world: %v", err)
			return o
		}
		defer w.Close()
		rec := &recorder{}
		w.Host.Events.AfterMessageStored.AddListener("verif", func(m event.MessageMetadata) {
			rec.mu.Lock()
			rec.stored = append(rec.stored, key{m.Mailbox, m.ID})
			rec.mu.Unlock()
		})
		w.Host.Events.AfterMessageDeleted.AddListener("verif", func(m event.MessageMetadata) {
			rec.mu.Lock()
			rec.deleted = append(rec.deleted, key{m.Mailbox, m.ID})
			rec.mu.Unlock()
		})
		origin, _ := w.Policy.ParseOrigin("s@a.test")
		rc, _ := w.Policy.NewRecipient("race@a.test")
		var dmu sync.Mutex
		deliveries := map[string]int{}
		rc2, _ := w.Policy.NewRecipient("other@a.test")
		deliverTo := func(r *policy.Recipient, box string) {
			if err := w.Manager.Deliver(origin, []*policy.Recipient{r}, "Received: from h ([1.1.1.1]) by d\r\n", []byte("Subject: r\r\n\r\n"+strings.Repeat("y", 200)+"\r\n")); err == nil {
				dmu.Lock()
				deliveries[box]++
				dmu.Unlock()
			}
		}
		deliver := func() { deliverTo(rc, "race") }
		for i := 0; i < c.N; i++ {
			deliver()
		}
		ms, _ := w.Store.GetMessages("race")
		var ids []string
		for _, m := range ms {
			ids = append(ids, m.ID())
		}
		var wg sync.WaitGroup
		start := make(chan struct{})
		removers := 0
		for _, kind := range c.Workers {
			if kind <= 1 {
				removers++
			}
			wg.Add(1)
			go func(kind int) {
				defer wg.Done()
				<-start
				switch kind {
				case 0:
					for _, id := range ids {
						_ = w.Store.RemoveMessage("race", id)
					}
				case 1:
					for i := len(ids) - 1; i >= 0; i-- {
						_ = w.Store.RemoveMessage("race", ids[i])
					}
				case 2:
					_ = w.Store.PurgeMessages("race")
				case 3:
					for i := 0; i < 5; i++ {
						deliver()
					}
				case 5:
					for i := 0; i < 40; i++ {
						deliver()
					}
				case 6:
					for i := 0; i < 40; i++ {
						deliverTo(rc2, "other")
					}
				case 4:
					// a reader opening the messages one after the other: emits nothing, but rewrites
					// the mailbox's record of what it holds while the others change it
					for _, id := range ids {
						_ = w.Store.MarkSeen("race", id)
					}
				}
			}(kind)
		}
		close(start)
		done := make(chan struct{})
		go func() { wg.Wait(); close(done) }()
		select {
		case <-done:
		case <-time.After(hx.ReplyTimeout):
			o.Failf(pid+":deadlock", "concurrent removers did not finish within %v", hx.ReplyTimeout)
			return o
		}
		var msg string
		deadline := time.Now().Add(10 * time.Second)
		for {
			s, d := rec.snapshot()
			lv, err := live(w.Store)
			if err != nil {
				o.Failf(pid+":store", "VisitMailboxes: %v", err)
				return o
			}
			msg = judge(s, d, lv, deliveries)
			if msg == "" || time.Now().After(deadline) {
				break
			}
			time.Sleep(2 * time.Millisecond)
		}
		if msg == "" {
			time.Sleep(30 * time.Millisecond)
			s, d := rec.snapshot()
			lv, _ := live(w.Store)
			msg = judge(s, d, lv, deliveries)
		}
		if msg != "" {
			s, d := rec.snapshot()
			o.Failf(pid+":event-accounting", "[%s cap=%d maxkb=%d, workers %v] %s (stored events %d, deleted events %d)", c.Backend, c.Cap, c.MaxKB, c.Workers, msg, len(s), len(d))
		}
		o.NonTrivial = removers >= 2 || (c.Cap > 0 && c.MaxKB > 0 && len(c.Workers) >= 4 && c.Workers[0] >= 5)
		if c.Cap > 0 && c.MaxKB > 0 && c.Workers[0] >= 5 {
			o.Class("flood of deliveries under both mem limits")
		}
		return o
	},
}

// ---- (d) the very first events of a listener, emitted from several goroutines at once ----

// FCase: on a fresh Host, Emitters goroutines leave a barrier together; each emits the stored
// and then the deleted event of a message of its own. Repeated Rounds times, a fresh Host each.
type FCase struct {
	Emitters int  `json:"emitters"`
	Rounds   int  `json:"rounds"`
	Both     bool `json:"both"`  // the listener name is registered on both after-event brokers (else only on 'stored', a second name on 'deleted')
	Work     int  `json:"work"`  // the listener spins this many scheduler yields per call
	Extra    int  `json:"extra"` // further stored events per emitter after the pair
	// Churn: other listener names, registered before the observed one, are removed and registered
	// again while the events are emitted (extensions coming and going).
	Churn bool `json:"churn,omitempty"`
	// Self (with Churn): the observed listener's own registration for 'deleted' events is removed
	// and made again while events flow (it stays registered for 'stored' throughout): deleted
	// events may then be missed, but never doubled, and it is still never entered twice at once.
	Self bool `json:"self,omitempty"`
}

var propFirst = hx.Prop[FCase]{
	ID: pid, Name: "first",
	Rule: "on a freshly constructed extension.Host (as at server start, or for a listener name registered just now) 2-8 goroutines leave a spin " +
		"barrier together and each emits stored(m), deleted(m) and 0-3 further stored events of its own messages through the public brokers; " +
		"20-60 rounds per case, a fresh Host each; oracle: a listener name is never inside two invocations at once, every event arrives exactly " +
		"once, and each emitter's events arrive in its emission order (stored before deleted); non-trivial = at least 3 emitters; distinct = distinct case JSON",
	Quick: 40, Thorough: 400,
	Gen: func(t *rapid.T) FCase {
		return FCase{Emitters: rapid.IntRange(2, 8).Draw(t, "emitters"), Rounds: rapid.IntRange(20, 60).Draw(t, "rounds"), Both: rapid.Bool().Draw(t, "both"),
			Work: rapid.SampledFrom([]int{0, 1, 5}).Draw(t, "work"), Extra: rapid.IntRange(0, 3).Draw(t, "extra"), Churn: rapid.IntRange(0, 2).Draw(t, "churn") == 0, Self: rapid.Bool().Draw(t, "self")}
	},
	Run: runFirst,
}

func runFirst(c FCase) *hx.Outcome {
	o := &hx.Outcome{}
	for round := 0; round < c.Rounds && !o.Failed(); round++ {
		host := extension.NewHost()
		var mu sync.Mutex
		inside := map[string]int{}
		reentered := ""
		var got []string
		enter := func(name, tag string) {
			mu.Lock()
			inside[name]++
			if inside[name] > 1 && reentered == "" {
				reentered = fmt.Sprintf("listener %q entered for %s while its previous invocation had not returned", name, tag)
			}
			got = append(got, tag)
			mu.Unlock()
			for i := 0; i < c.Work; i++ {
				runtime.Gosched()
			}
			if c.Churn && c.Self {
				time.Sleep(30 * time.Microsecond) // long enough for a registration change to fall into a call
			}
			mu.Lock()
			inside[name]--
			mu.Unlock()
		}
		delName := "probe"
		if !c.Both {
			delName = "probe-deleted"
		}
		nop := func(event.MessageMetadata) {}
		if c.Churn {
			for k := 0; k < 3; k++ {
				host.Events.AfterMessageStored.AddListener(fmt.Sprintf("churn-%d", k), nop)
				host.Events.AfterMessageDeleted.AddListener(fmt.Sprintf("churn-%d", k), nop)
			}
		}
		host.Events.AfterMessageStored.AddListener("probe", func(m event.MessageMetadata) { enter("probe", "stored:"+m.ID) })
		onDeleted := func(m event.MessageMetadata) { enter(delName, "deleted:"+m.ID) }
		host.Events.AfterMessageDeleted.AddListener(delName, onDeleted)
		self := c.Churn && c.Self
		var ready, wg sync.WaitGroup
		var goFlag atomic.Bool
		var want [][]string
		for e := 0; e < c.Emitters; e++ {
			id := fmt.Sprintf("e%d", e)
			seq := []string{"stored:" + id, "deleted:" + id}
			for x := 0; x < c.Extra; x++ {
				seq = append(seq, fmt.Sprintf("stored:%s.%d", id, x))
			}
			want = append(want, seq)
			ready.Add(1)
			wg.Add(1)
			go func(seq []string) {
				defer wg.Done()
				ready.Done()
				for !goFlag.Load() {
				}
				for _, tag := range seq {
					md := event.MessageMetadata{Mailbox: "box", ID: tag[strings.IndexByte(tag, ':')+1:], Date: hx.BaseTime}
					if strings.HasPrefix(tag, "stored:") {
						host.Events.AfterMessageStored.Emit(&md)
					} else {
						host.Events.AfterMessageDeleted.Emit(&md)
					}
				}
			}(seq)
		}
		ready.Wait()
		churnStop := make(chan struct{})
		churnDone := make(chan struct{})
		go func() {
			defer close(churnDone)
			if !c.Churn {
				return
			}
			for k := 0; ; k++ {
				select {
				case <-churnStop:
					return
				default:
				}
				name := fmt.Sprintf("churn-%d", k%3)
				host.Events.AfterMessageStored.RemoveListener(name)
				host.Events.AfterMessageDeleted.RemoveListener(name)
				host.Events.AfterMessageStored.AddListener(name, nop)
				host.Events.AfterMessageDeleted.AddListener(name, nop)
				if self {
					host.Events.AfterMessageDeleted.RemoveListener(delName)
					host.Events.AfterMessageDeleted.AddListener(delName, onDeleted)
				}
			}
		}()
		goFlag.Store(true)
		wg.Wait()
		close(churnStop)
		<-churnDone
		total := 0
		for _, s := range want {
			total += len(s)
		}
		awaited := total
		if self {
			awaited = 0
			for _, sq := range want {
				for _, tag := range sq {
					if strings.HasPrefix(tag, "stored:") {
						awaited++
					}
				}
			}
		}
		deadline := time.Now().Add(10 * time.Second)
		for {
			mu.Lock()
			n := len(got)
			if self {
				// deleted events may legitimately be missing: wait for the stored ones
				n = 0
				for _, g := range got {
					if strings.HasPrefix(g, "stored:") {
						n++
					}
				}
			}
			mu.Unlock()
			if n >= awaited || time.Now().After(deadline) {
				break
			}
			time.Sleep(200 * time.Microsecond)
		}
		time.Sleep(time.Millisecond) // grace for duplicates
		if self {
			time.Sleep(5 * time.Millisecond) // and for deleted events still on their way
		}
		mu.Lock()
		if reentered != "" {
			o.Failf(pid+":listener-reentered", "round %d, %d emitters on a fresh Host: %s", round, c.Emitters, reentered)
		}
		count := map[string]int{}
		pos := map[string]int{}
		for i, g := range got {
			count[g]++
			pos[g] = i
		}
		for _, seq := range want {
			for i, tag := range seq {
				if self && strings.HasPrefix(tag, "deleted:") && count[tag] == 0 {
					continue // emitted while the listener was not registered
				}
				if count[tag] != 1 {
					o.Failf(pid+":event-accounting", "round %d, %d emitters on a fresh Host: event %s arrived %d times (all: %v)", round, c.Emitters, tag, count[tag], got)
				} else if i > 0 && count[seq[i-1]] == 1 && c.Both && pos[seq[i-1]] > pos[tag] {
					o.Failf(pid+":event-order", "round %d, %d emitters on a fresh Host: %s observed before %s, emitted after it by the same goroutine (all: %v)", round, c.Emitters, tag, seq[i-1], got)
				}
			}
		}
		if len(got) != total && !o.Failed() && !self {
			o.Failf(pid+":event-accounting", "round %d: %d events arrived, %d emitted: %v", round, len(got), total, got)
		}
		mu.Unlock()
	}
	o.Class(fmt.Sprintf("%d emitters", c.Emitters))
	if c.Both {
		o.Class("one name on both brokers")
	}
	o.NonTrivial = c.Emitters >= 3
	return o
}

func TestProp(t *testing.T) {
	t.Run("events", prop.Check)
	t.Run("probe", propProbe.Check)
	t.Run("racing", propRace.Check)
	t.Run("first", propFirst.Check)
}
func TestRegress(t *testing.T) {
	prop.Regress(t)
	propProbe.Regress(t)
	propRace.Regress(t)
	propFirst.Regress(t)
}
func TestReplay(t *testing.T) {
	if *hx.ReplayPath == "" {
		t.Skip("no -replay")
	}
	if !prop.Replay(t, *hx.ReplayPath) && !propProbe.Replay(t, *hx.ReplayPath) && !propRace.Replay(t, *hx.ReplayPath) && !propFirst.Replay(t, *hx.ReplayPath) {
		t.Fatalf("no prop matches %s", *hx.ReplayPath)
	}
}
func TestMain(m *testing.M) { hx.Main(m) }
