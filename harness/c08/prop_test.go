package c08

import (
	"os"
	"testing"

	"github.com/inbucket/inbucket/v3/pkg/extension"
	"pgregory.net/rapid"
	"verif/harness/hx"
)

const pid = "C08"

// Case is a limit configuration plus a delivery/removal history.
type Case struct {
	Backend string   `json:"backend"`
	Cap     int      `json:"cap"`
	MaxKB   int      `json:"maxkb"`
	Boxes   []string `json:"boxes"`
	Ops     []hx.Op  `json:"ops"`
}

var kinds = []string{"add", "add", "add", "add", "add", "add", "remove", "remove", "purge", "get", "list"}
var sizes = []int{1, 60, 100, 300, 300, 500, 700, 1000, 1100, 1500, 2100}

var prop = hx.Prop[Case]{
	ID: pid, Name: "limits",
	Rule: "rapid-generated histories of 10-80 steps (deliveries of 1..2140 bytes, removes, purges, gets, lists over 3 mailboxes) against the mem " +
		"store with cap in {0,1,2,3,5} x maxkb in {0,1,2,4} and the file store with a cap; the reference model evicts the mailbox's oldest " +
		"above the cap, then the globally oldest while bytes exceed the limit, and the whole store must equal it after every step (so the id " +
		"just returned is retrievable whenever the message fits); non-trivial = at least one eviction and one remove/purge happened before the " +
		"last add; distinct = distinct case JSON",
	Quick: 500, Thorough: 5000,
	Gen: func(t *rapid.T) Case {
		c := Case{Backend: rapid.SampledFrom([]string{"mem", "mem", "mem", "file"}).Draw(t, "backend")}
		c.Cap = rapid.SampledFrom([]int{0, 1, 2, 3, 5}).Draw(t, "cap")
		if c.Backend == "mem" {
			c.MaxKB = rapid.SampledFrom([]int{0, 1, 2, 4}).Draw(t, "maxkb")
		}
		c.Boxes = hx.BoxesGen(3, 3).Draw(t, "boxes")
		og := hx.OpGen(kinds)
		mg := hx.SizedMsgGen(sizes)
		c.Ops = rapid.SliceOfN(rapid.Custom(func(t *rapid.T) hx.Op {
			op := og.Draw(t, "op")
			if op.K == "add" {
				op.Msg = mg.Draw(t, "m")
			}
			return op
		}), 10, 80).Draw(t, "ops")
		return c
	},
	Run: run,
}

func run(c Case) *hx.Outcome {
	o := &hx.Outcome{}
	s := &hx.Sys{Name: c.Backend, Model: hx.NewModel(c.Cap, int64(c.MaxKB)*1024), Boxes: c.Boxes}
	if c.Backend == "file" {
		dir := hx.TempDir()
		defer os.RemoveAll(dir)
		s.Store = hx.NewFile(extension.NewHost(), dir, c.Cap)
	} else {
		s.Store = hx.NewMem(extension.NewHost(), c.Cap, c.MaxKB)
	}
	evicted, cleared, nt := false, false, false
	for i, op := range c.Ops {
		if op.K == "add" && evicted && cleared {
			nt = true
		}
		obs := s.Apply(pid, op, o)
		if op.K == "add" && obs != "add ok evicted=0" && obs != "add err" {
			evicted = true
		}
		if obs == "remove ok" || op.K == "purge" {
			cleared = true
		}
		s.Check(pid, i, o)
		if o.Failed() {
			break
		}
	}
	if c.Cap > 0 && c.MaxKB > 0 {
		o.Class("both limits")
	} else if c.Cap > 0 {
		o.Class("cap only")
	} else if c.MaxKB > 0 {
		o.Class("size limit only")
	} else {
		o.Class("no limit")
	}
	o.Class("backend " + c.Backend)
	if evicted {
		o.Class("eviction happened")
	}
	o.NonTrivial = nt
	return o
}

func TestProp(t *testing.T)    { prop.Check(t) }
func TestRegress(t *testing.T) { prop.Regress(t) }
func TestReplay(t *testing.T) {
	if *hx.ReplayPath == "" {
		t.Skip("no -replay")
	}
	if !prop.Replay(t, *hx.ReplayPath) {
		t.Fatalf("no prop matches %s", *hx.ReplayPath)
	}
}
func TestMain(m *testing.M) { hx.Main(m) }
