package c08

import (
	"fmt"
	"os"
	"sync"
	"sync/atomic"
	"testing"
	"time"

	"github.com/inbucket/inbucket/v3/pkg/extension"
	"github.com/inbucket/inbucket/v3/pkg/storage"
	"pgregory.net/rapid"
	"verif/harness/hx"
)

const pid = "C08"

// Case is a limit configuration plus a delivery/removal history.
type Case struct {
	Backend string   `json:"backend"`
	Cap     int      `json:"cap"`
	MaxKB   int      `json:"maxkb"`
	Boxes   []string `json:"boxes"`
	Ops     []hx.Op  `json:"ops"`
}

var kinds = []string{"add", "add", "add", "add", "add", "add", "remove", "remove", "purge", "get", "list", "addfail"}
var sizes = []int{1, 60, 100, 300, 300, 500, 700, 1000, 1100, 1500, 2100}

var prop = hx.Prop[Case]{
	ID: pid, Name: "limits",
	Rule: "rapid-generated histories of 10-80 steps (deliveries of 1..2140 bytes, removes, purges, gets, lists over 3 mailboxes) against the mem " +
		"store with cap in {0,1,2,3,5} x maxkb in {0,1,2,4} and the file store with a cap; the reference model evicts the mailbox's oldest " +
		"above the cap, then the globally oldest while bytes exceed the limit, and the whole store must equal it after every step (so the id " +
		"just returned is retrievable whenever the message fits); non-trivial = at least one eviction and one remove/purge happened before the " +
		"last add; distinct = distinct case JSON",
	Quick: 500, Thorough: 5000,
	Gen: func(t *rapid.T) Case {
		c := Case{Backend: rapid.SampledFrom([]string{"mem", "mem", "mem", "file"}).Draw(t, "backend")}
		c.Cap = rapid.SampledFrom([]int{0, 1, 2, 3, 5}).Draw(t, "cap")
		if c.Backend == "mem" {
			c.MaxKB = rapid.SampledFrom([]int{0, 1, 2, 4}).Draw(t, "maxkb")
		}
		c.Boxes = hx.BoxesGen(3, 3).Draw(t, "boxes")
		og := hx.OpGen(kinds)
		mg := hx.SizedMsgGen(sizes)
		c.Ops = rapid.SliceOfN(rapid.Custom(func(t *rapid.T) hx.Op {
			op := og.Draw(t, "op")
			if op.K == "add" || op.K == "addfail" {
				op.Msg = mg.Draw(t, "m")
			}
			return op
		}), 10, 80).Draw(t, "ops")
		return c
	},
	Run: run,
}

func run(c Case) *hx.Outcome {
	o := &hx.Outcome{}
	s := &hx.Sys{Name: c.Backend, Model: hx.NewModel(c.Cap, int64(c.MaxKB)*1024), Boxes: c.Boxes}
	if c.Backend == "file" {
		dir := hx.TempDir()
		defer os.RemoveAll(dir)
		s.Store = hx.NewFile(extension.NewHost(), dir, c.Cap)
	} else {
		s.Store = hx.NewMem(extension.NewHost(), c.Cap, c.MaxKB)
	}
	evicted, cleared, nt := false, false, false
	for i, op := range c.Ops {
		if op.K == "add" && evicted && cleared {
			nt = true
		}
		obs := s.Apply(pid, op, o)
		if op.K == "add" && obs != "add ok evicted=0" && obs != "add err" {
			evicted = true
		}
		if obs == "remove ok" || op.K == "purge" {
			cleared = true
		}
		s.Check(pid, i, o)
		if o.Failed() {
			break
		}
	}
	if c.Cap > 0 && c.MaxKB > 0 {
		o.Class("both limits")
	} else if c.Cap > 0 {
		o.Class("cap only")
	} else if c.MaxKB > 0 {
		o.Class("size limit only")
	} else {
		o.Class("no limit")
	}
	o.Class("backend " + c.Backend)
	if evicted {
		o.Class("eviction happened")
	}
	o.NonTrivial = nt
	return o
}

// ---- drift: the accounting after a concurrent past ----------------------------------

// WOp is one operation of a concurrent worker: deliver Size bytes to Box, remove the N-th
// oldest message this case still believes live in Box, or purge Box.
type WOp struct {
	K    string `json:"k"`
	Box  int    `json:"box"`
	Size int    `json:"size,omitempty"`
	N    int    `json:"n,omitempty"`
}

// DCase: a memory store with a size limit goes through a concurrent phase, is purged, and
// must then behave exactly like a fresh store for a sequential history.
type DCase struct {
	Cap     int      `json:"cap"`
	MaxKB   int      `json:"maxkb"`
	Boxes   []string `json:"boxes"`
	Workers [][]WOp  `json:"workers"`
	Tail    []hx.Op  `json:"tail"`
}

var propDrift = hx.Prop[DCase]{
	ID: pid, Name: "drift",
	Rule: "mem store with maxkb in {1,2,4} (cap 0/2/3): 2-6 goroutines run 6-30 generated deliveries (60..1500 bytes), removals (biased to the " +
		"oldest live message, i.e. the size enforcer's next victim) and purges concurrently; at quiescence stored bytes <= limit; then every mailbox " +
		"is purged, one message of exactly the limit is delivered and must be retrievable (any positive drift evicts it), and a generated sequential " +
		"history must match the reference model from the empty state step by step (negative drift shows as bytes over the limit); " +
		"non-trivial = the concurrent phase contained a removal or purge and its deliveries exceeded the limit (evictions ran); distinct = distinct case JSON",
	Quick: 400, Thorough: 3000,
	Gen: func(t *rapid.T) DCase {
		c := DCase{Cap: rapid.SampledFrom([]int{0, 2, 2, 3}).Draw(t, "cap"), MaxKB: rapid.SampledFrom([]int{1, 2, 2, 4}).Draw(t, "maxkb")}
		c.Boxes = hx.BoxesGen(2, 3).Draw(t, "boxes")
		wop := rapid.Custom(func(t *rapid.T) WOp {
			o := WOp{K: rapid.SampledFrom([]string{"add", "add", "add", "remove", "remove", "purge", "list", "list"}).Draw(t, "k"), Box: rapid.IntRange(0, 2).Draw(t, "box")}
			switch o.K {
			case "add":
				o.Size = rapid.SampledFrom([]int{60, 200, 300, 500, 700, 1000, 1500}).Draw(t, "size")
			case "remove":
				o.N = rapid.SampledFrom([]int{0, 0, 0, 1, 2, 5}).Draw(t, "n")
			}
			return o
		})
		c.Workers = rapid.SliceOfN(rapid.SliceOfN(wop, 6, 30), 2, 6).Draw(t, "workers")
		og := hx.OpGen(kinds)
		mg := hx.SizedMsgGen(sizes)
		c.Tail = rapid.SliceOfN(rapid.Custom(func(t *rapid.T) hx.Op {
			op := og.Draw(t, "op")
			if op.K == "add" || op.K == "addfail" {
				op.Msg = mg.Draw(t, "m")
			}
			return op
		}), 3, 25).Draw(t, "tail")
		return c
	},
	Run: runDrift,
}

func runDrift(c DCase) *hx.Outcome {
	o := &hx.Outcome{}
	st := hx.NewMem(extension.NewHost(), c.Cap, c.MaxKB)
	limit := int64(c.MaxKB) * 1024
	var mu sync.Mutex
	live := map[string][]string{} // ids delivered and not yet asked to go, oldest first (a belief, not a model)
	var delivered int64
	var freshIDs [][2]string // the first deliveries to the per-round fresh mailboxes
	cleared := false
	overCap := ""
	var wg sync.WaitGroup
	done := make(chan struct{})
	// The workers proceed in rounds of six operations. A round begins, for all of them at the same
	// instant, with a small delivery to a mailbox nobody has used before: the first messages of
	// a mailbox arriving together is where its creation can go wrong.
	const perRound = 6
	rounds := 0
	for _, w := range c.Workers {
		if r := (len(w) + perRound - 1) / perRound; r > rounds {
			rounds = r
		}
	}
	gates := make([]*sync.WaitGroup, rounds)
	for r := range gates {
		gates[r] = &sync.WaitGroup{}
		gates[r].Add(len(c.Workers))
	}
	var spin atomic.Int32
	for _, w := range c.Workers {
		wg.Add(1)
		go func(w []WOp) {
			defer wg.Done()
			for r := 0; r < rounds; r++ {
				gates[r].Done()
				gates[r].Wait()
				fresh := fmt.Sprintf("fresh-%d", r)
				// (the wait group wakes its waiters one after the other; a spin on a counter lets
				// them go within nanoseconds of each other)
				spin.Add(1)
				for int(spin.Load()) < len(c.Workers)*(r+1) {
				}
				if id, err := st.AddMessage(hx.NewDelivery(fresh, nil, nil, hx.BaseTime, "w", make([]byte, 10))); err == nil {
					mu.Lock()
					live[fresh] = append(live[fresh], id)
					delivered += 10
					freshIDs = append(freshIDs, [2]string{fresh, id})
					mu.Unlock()
				}
				lo, hi := r*perRound, (r+1)*perRound
				if lo > len(w) {
					lo = len(w)
				}
				if hi > len(w) {
					hi = len(w)
				}
				for _, op := range w[lo:hi] {
					box := c.Boxes[op.Box%len(c.Boxes)]
					switch op.K {
					case "add":
						id, err := st.AddMessage(hx.NewDelivery(box, nil, nil, hx.BaseTime, "w", make([]byte, op.Size)))
						mu.Lock()
						if err == nil {
							live[box] = append(live[box], id)
							delivered += int64(op.Size)
						}
						mu.Unlock()
					case "remove":
						mu.Lock()
						id := ""
						if l := live[box]; len(l) > 0 {
							i := op.N % len(l)
							id = l[i]
							live[box] = append(append([]string{}, l[:i]...), l[i+1:]...)
						}
						cleared = true
						mu.Unlock()
						if id != "" {
							_ = st.RemoveMessage(box, id) // may have been evicted already
						}
					case "purge":
						mu.Lock()
						live[box] = nil
						cleared = true
						mu.Unlock()
						_ = st.PurgeMessages(box)
					case "list":
						// "a mailbox never lists more than the cap": also not for a moment, to a reader
						// that looks while a delivery is under way
						if ms, err := st.GetMessages(box); err == nil && c.Cap > 0 && len(ms) > c.Cap {
							mu.Lock()
							overCap = fmt.Sprintf("a reader listed %d messages in mailbox %q although the cap is %d", len(ms), box, c.Cap)
							mu.Unlock()
						}
					}
				}
			}
		}(w)
	}
	go func() { wg.Wait(); close(done) }()
	select {
	case <-done:
	case <-time.After(20 * time.Second):
		o.Failf(pid+":hang", "[mem cap=%d maxkb=%d] the concurrent phase did not finish within 20 s", c.Cap, c.MaxKB)
		return o
	}
	seenID := map[[2]string]bool{}
	for _, f := range freshIDs {
		if seenID[f] {
			o.Failf(pid+":duplicate-id", "[mem cap=%d maxkb=%d] two of the deliveries that arrived together in the new mailbox %q received the same id %s", c.Cap, c.MaxKB, f[0], f[1])
			break
		}
		seenID[f] = true
	}
	if overCap != "" {
		o.Failf(pid+":over-cap", "[mem cap=%d maxkb=%d] during the concurrent phase %s", c.Cap, c.MaxKB, overCap)
	}
	var total int64
	_ = st.VisitMailboxes(func(ms []storage.Message) bool {
		for _, m := range ms {
			total += m.Size()
		}
		return true
	})
	if total > limit {
		o.Failf(pid+":over-limit", "[mem cap=%d maxkb=%d] after the concurrent phase the store holds %d bytes, limit %d", c.Cap, c.MaxKB, total, limit)
	}
	allBoxes := append([]string{}, c.Boxes...)
	for r := 0; r < rounds; r++ {
		allBoxes = append(allBoxes, fmt.Sprintf("fresh-%d", r))
	}
	for _, b := range allBoxes {
		if err := st.PurgeMessages(b); err != nil {
			o.Failf(pid+":purge-error", "PurgeMessages(%q): %v", b, err)
		}
	}
	// exactly the limit must fit into an empty store
	id, err := st.AddMessage(hx.NewDelivery(c.Boxes[0], nil, nil, hx.BaseTime, "fit", make([]byte, limit)))
	if m, gerr := st.GetMessage(c.Boxes[0], id); err != nil || gerr != nil || m == nil {
		o.Failf(pid+":accounting-drift", "[mem cap=%d maxkb=%d] after a concurrent phase (%d workers) and a purge of every mailbox, a message of exactly the limit (%d bytes) "+
			"is not kept by the empty store (add err %v, get err %v): the size accounting drifted upwards", c.Cap, c.MaxKB, len(c.Workers), limit, err, gerr)
		return o
	}
	_ = st.PurgeMessages(c.Boxes[0])
	s := &hx.Sys{Name: fmt.Sprintf("mem cap=%d maxkb=%d after a concurrent phase", c.Cap, c.MaxKB), Store: st, Model: hx.NewModel(c.Cap, limit), Boxes: c.Boxes}
	for i, op := range c.Tail {
		s.Apply(pid, op, o)
		s.Check(pid, i, o)
		if o.Failed() {
			break
		}
	}
	o.Class(fmt.Sprintf("%d workers", len(c.Workers)))
	if delivered > limit {
		o.Class("concurrent deliveries exceeded the limit")
	}
	if cleared {
		o.Class("concurrent removal or purge")
	}
	o.NonTrivial = cleared && delivered > limit
	return o
}

func TestProp(t *testing.T)    { prop.Check(t); propDrift.Check(t) }
func TestRegress(t *testing.T) { prop.Regress(t); propDrift.Regress(t) }
func TestReplay(t *testing.T) {
	if *hx.ReplayPath == "" {
		t.Skip("no -replay")
	}
	if !prop.Replay(t, *hx.ReplayPath) && !propDrift.Replay(t, *hx.ReplayPath) {
		t.Fatalf("no prop matches %s", *hx.ReplayPath)
	}
}
func TestMain(m *testing.M) { hx.Main(m) }
