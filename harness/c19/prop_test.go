package c19

import (
	"bufio"
	"bytes"
	"crypto/tls"
	"fmt"
	"net"
	"os"
	"regexp"
	"strings"
	"sync"
	"sync/atomic"
	"testing"
	"time"

	"github.com/inbucket/inbucket/v3/pkg/config"
	"github.com/inbucket/inbucket/v3/pkg/storage"
	"github.com/inbucket/inbucket/v3/pkg/verifhook"
	"github.com/rs/zerolog"
	"github.com/rs/zerolog/log"
	"pgregory.net/rapid"
	"verif/harness/hx"
)

const pid = "C19"

// Sess is one client session and the protocol state it is in when shutdown is requested.
type Sess struct {
	Proto string `json:"proto"` // smtp | pop3
	State string `json:"state"` // smtp: connected greeted mail rcpt data | pop3: auth marked ; held = accepted but paused before it starts
}

type Case struct {
	Backend  string   `json:"backend"`
	Sessions []Sess   `json:"sessions"`
	Order    []string `json:"order"` // cancel, finish:<i>, drain-smtp, drain-pop3, connect-smtp, connect-pop3, release
	// RetentionOff runs the scanner with period 0 (disabled): Start returns at once and Join
	// must still not block shutdown.
	RetentionOff bool `json:"retention_off,omitempty"`
	// TLS runs the SMTP listener with implicit TLS (ForceTLS); Abort[i] makes SMTP session i end
	// with a TCP reset instead of finishing its dialogue.
	TLS   bool   `json:"tls,omitempty"`
	Abort []bool `json:"abort,omitempty"`
	// Knock is the number of goroutines that connect to the two listeners (and hang up at once) as
	// fast as they can from just before the cancellation until the listeners are closed: some of
	// these connections are accepted in the very moments around the shutdown request.
	Knock int `json:"knock,omitempty"`
}

var prop = hx.Prop[Case]{
	ID: pid, Name: "shutdown",
	Rule: "real SMTP and POP3 servers on 127.0.0.1:0 wired as FullAssembly does (hub and retention scanner on the same host and context); " +
		"0-6 sessions driven into generated protocol states (connected, greeted, after MAIL, after RCPT, mid-DATA; POP3 logged in with a " +
		"deletion mark), at most one SMTP session held at the 'accepted' yield point before it registers itself; then a generated ordering " +
		"of cancel (in half of the cases with 2-8 goroutines connecting and hanging up at full speed from just before it until the listeners are " +
		"closed), the client steps that finish each dialogue, Drain calls, new connection attempts; oracle: after cancel no new connection " +
		"is greeted, every open session completes (in-flight message acknowledged with 250 and stored, POP3 deletions applied on QUIT), " +
		"Drain has not returned while an accepted session is still running (checked by state) and returns within 20 s after the last one " +
		"ended, Start/Join/hub return within 2 s of cancel, the process survives; non-trivial = a session is mid-transaction at cancel time " +
		"and finishes afterwards",
	Quick: 150, Thorough: 600,
	Gen: func(t *rapid.T) Case {
		c := Case{Backend: rapid.SampledFrom([]string{"mem", "file"}).Draw(t, "backend")}
		n := rapid.IntRange(0, 6).Draw(t, "nsess")
		held := false
		for i := 0; i < n; i++ {
			s := Sess{Proto: rapid.SampledFrom([]string{"smtp", "smtp", "pop3", "pop3"}).Draw(t, "proto")}
			if s.Proto == "smtp" {
				s.State = rapid.SampledFrom([]string{"connected", "greeted", "mail", "rcpt", "data", "data", "held", "held"}).Draw(t, "state")
				if s.State == "held" {
					if held {
						s.State = "data"
					}
					held = true
				}
			} else {
				s.State = rapid.SampledFrom([]string{"auth", "marked", "marked", "pheld", "pheld"}).Draw(t, "pstate")
				if s.State == "pheld" {
					if held {
						s.State = "marked"
					}
					held = true
				}
			}
			c.Sessions = append(c.Sessions, s)
		}
		acts := []string{"cancel", "drain-smtp", "drain-pop3", "connect-smtp", "connect-pop3", "connect-smtp"}
		if held {
			acts = append(acts, "release")
		}
		for i := range c.Sessions {
			acts = append(acts, fmt.Sprintf("finish:%d", i))
		}
		c.Order = rapid.Permutation(acts).Draw(t, "order")
		c.RetentionOff = rapid.IntRange(0, 2).Draw(t, "retoff") == 0
		c.TLS = rapid.IntRange(0, 3).Draw(t, "tls") == 0
		for range c.Sessions {
			c.Abort = append(c.Abort, rapid.IntRange(0, 4).Draw(t, "abort") == 0)
		}
		c.Knock = rapid.SampledFrom([]int{0, 0, 2, 4, 8}).Draw(t, "knock")
		return c
	},
	Run: run,
}

// logGate is the process-wide log sink for this check. Normally it discards; once armed it
// blocks the first line written by the POP3 module (the goroutine writing it is a freshly
// accepted session: its code logs before doing anything else) until released. That pauses an
// accepted session without any hook in the accept path.
type logGate struct {
	armed   atomic.Bool
	blocked chan struct{}
	release chan struct{}
	mu      sync.Mutex
	known   map[string]bool // client addresses of this case's sessions that are not to be held
	seen    []string        // diagnostics: pop3 lines seen while armed
}

var remoteRE = regexp.MustCompile(`"remote":"([^"]+)"`)

func (g *logGate) know(addr string) {
	g.mu.Lock()
	if g.known == nil {
		g.known = map[string]bool{}
	}
	g.known[addr] = true
	g.mu.Unlock()
}

func (g *logGate) Write(p []byte) (int, error) {
	if g.armed.Load() && bytes.Contains(p, []byte(`"module":"pop3"`)) && !bytes.Contains(p, []byte(`"phase"`)) {
		m := remoteRE.FindSubmatch(p)
		g.mu.Lock()
		stranger := m != nil && !g.known[string(m[1])]
		g.seen = append(g.seen, fmt.Sprintf("stranger=%v %s", stranger, bytes.TrimSpace(p)))
		g.mu.Unlock()
		// only a session the harness has not registered yet (the one being dialled now) is held;
		// late lines of sessions from earlier cases pass
		if stranger && g.armed.CompareAndSwap(true, false) {
			g.mu.Lock()
			b, r := g.blocked, g.release
			g.mu.Unlock()
			b <- struct{}{}
			<-r
		}
	}
	return len(p), nil
}

var gate = &logGate{}

// worldSeq numbers the worlds of this process (see Run).
var worldSeq atomic.Int64

// The process-wide logger is replaced once, before any server goroutine exists (assigning it
// per case would race with goroutines of earlier cases that still read it).
func init() {
	log.Logger = zerolog.New(gate)
	zerolog.SetGlobalLevel(zerolog.DebugLevel)
}

// reset installs fresh channels for one case.
func (g *logGate) reset() (blocked chan struct{}, release chan struct{}) {
	g.mu.Lock()
	defer g.mu.Unlock()
	g.armed.Store(false)
	// Only this case's own connections are exempt. Sessions of earlier cases have all ended
	// (every case drains both servers before it returns), and ephemeral client ports recur from
	// case to case, so remembering older addresses would exempt the very session to be held.
	g.known = map[string]bool{}
	g.seen = nil
	g.blocked, g.release = make(chan struct{}, 1), make(chan struct{})
	return g.blocked, g.release
}

type client struct {
	conn net.Conn
	br   *bufio.Reader
	raw  net.Conn // the TCP connection underneath (== conn without TLS)
}

func dial(addr string) (*client, error) {
	c, err := net.DialTimeout("tcp", addr, 2*time.Second)
	if err != nil {
		return nil, err
	}
	if !gate.armed.Load() {
		gate.know(c.LocalAddr().String())
	}
	return &client{conn: c, br: bufio.NewReader(c)}, nil
}

// dialSMTP connects to the SMTP listener, through TLS when the listener is an implicit-TLS one.
// With handshake=false the TLS handshake is left to the first read (a held session has not
// started serving yet).
func dialSMTP(addr string, useTLS, handshake bool) (*client, error) {
	c, err := net.DialTimeout("tcp", addr, 2*time.Second)
	if err != nil {
		return nil, err
	}
	if !gate.armed.Load() {
		gate.know(c.LocalAddr().String())
	}
	var conn net.Conn = c
	if useTLS {
		tc := tls.Client(c, &tls.Config{InsecureSkipVerify: true})
		if handshake {
			_ = tc.SetDeadline(time.Now().Add(5 * time.Second))
			if err := tc.Handshake(); err != nil {
				return nil, err
			}
			_ = tc.SetDeadline(time.Time{})
		}
		conn = tc
	}
	return &client{conn: conn, br: bufio.NewReader(conn), raw: c}, nil
}

// reset ends the connection with a TCP RST.
func (c *client) reset() {
	if tc, ok := c.raw.(*net.TCPConn); ok {
		_ = tc.SetLinger(0)
		_ = tc.Close()
		return
	}
	_ = c.conn.Close()
}

func (c *client) line(d time.Duration) (string, error) {
	_ = c.conn.SetReadDeadline(time.Now().Add(d))
	return c.br.ReadString('\n')
}

func (c *client) cmd(s string) (string, error) {
	_ = c.conn.SetWriteDeadline(time.Now().Add(hx.ReplyTimeout))
	if _, err := c.conn.Write([]byte(s + "\r\n")); err != nil {
		return "", err
	}
	for {
		l, err := c.line(hx.ReplyTimeout)
		if err != nil {
			return l, err
		}
		if len(l) >= 4 && l[3] == '-' {
			continue
		}
		return l, nil
	}
}

func within(o *hx.Outcome, key, what string, d time.Duration, ch <-chan struct{}) bool {
	select {
	case <-ch:
		return true
	case <-time.After(d):
		o.Failf(pid+":"+key, "%s did not happen within %v", what, d)
		return false
	}
}

func run(c Case) *hx.Outcome {
	o := &hx.Outcome{}
	cfg := hx.DefaultCfg()
	cfg.Backend, cfg.NoHTTP = c.Backend, true
	cfg.SMTPForceTLS = c.TLS
	// A name of its own per world: after shutdown the kernel may hand the freed ephemeral port to
	// a listener of another check process running in parallel, and a greeting from that stranger
	// must not be taken for ours.
	domain := fmt.Sprintf("c19-%d-%d.test", os.Getpid(), worldSeq.Add(1))
	cfg.Domain = domain
	w, err := hx.NewWorld(cfg)
	if err != nil {
		o.Failf(pid+":harness", "world: %v", err)
		return o
	}
	defer w.Close()
	// the accepted-session yield point: only the designated session is held
	gateBlocked, gateRelease := gate.reset()
	holdNext := atomic.Bool{}
	heldCh := make(chan struct{}, 1)
	releaseCh := make(chan struct{})
	verifhook.SetYield(func(p string) {
		if p == "smtp.session.accepted" && holdNext.CompareAndSwap(true, false) {
			heldCh <- struct{}{}
			<-releaseCh
		}
	})
	defer verifhook.SetYield(nil)
	smtpStarted, pop3Started := make(chan struct{}), make(chan struct{})
	smtpReady, pop3Ready := make(chan struct{}), make(chan struct{})
	go func() { w.SMTP.Start(w.Ctx, func() { close(smtpReady) }); close(smtpStarted) }()
	go func() { w.POP3.Start(w.Ctx, func() { close(pop3Ready) }); close(pop3Started) }()
	period := time.Hour
	if c.RetentionOff {
		period = 0
	}
	rs := storage.NewRetentionScanner(config.Storage{RetentionPeriod: period, RetentionSleep: time.Second}, w.Store)
	rsDone := make(chan struct{})
	go func() { rs.Start(w.Ctx); close(rsDone) }()
	// Start-up is not what this property is about: a machine too busy to bring two listeners up
	// in 30 s makes the case inconclusive (counted), not a violation.
	for _, ready := range []chan struct{}{smtpReady, pop3Ready} {
		select {
		case <-ready:
		case <-time.After(30 * time.Second):
			o.Class("abandoned: the listeners were not ready within 30 s")
			w.Cancel()
			return o
		}
	}
	smtpAddr, pop3Addr := w.SMTP.VerifAddr().String(), w.POP3.VerifAddr().String()
	released := false
	release := func() {
		if !released {
			released = true
			close(releaseCh)
			close(gateRelease)
		}
	}
	defer release()
	fail := func(key, f string, a ...interface{}) { o.Failf(pid+":"+key, f, a...) }

	// bring the sessions into their states
	clients := make([]*client, len(c.Sessions))
	open := make([]bool, len(c.Sessions))
	heldIdx := -1
	for i, s := range c.Sessions {
		box := fmt.Sprintf("sess%d", i)
		if s.Proto == "pop3" {
			for k := 0; k < 2; k++ {
				if _, err := w.Store.AddMessage(hx.NewDelivery(box, nil, nil, time.Now(), "p", []byte("Subject: p\r\n\r\nx\r\n"))); err != nil {
					fail("harness", "prefill: %v", err)
					return o
				}
			}
			if s.State == "pheld" {
				gate.armed.Store(true)
			}
			cl, err := dial(pop3Addr)
			if err != nil {
				fail("harness", "dial pop3: %v", err)
				return o
			}
			clients[i], open[i] = cl, true
			if s.State == "pheld" {
				heldIdx = i
				select {
				case <-gateBlocked:
				case <-time.After(30 * time.Second):
					// the session to be held did not show up in the log (a machine too busy, or the
					// line went by before the gate was armed): the case cannot be set up
					o.Class("abandoned: the POP3 session to be held was not seen within 30 s")
					w.Cancel()
					release()
					for _, k := range clients {
						if k != nil {
							_ = k.conn.Close()
						}
					}
					return o
				}
				gate.know(cl.conn.LocalAddr().String())
				continue
			}
			if l, err := cl.line(hx.ReplyTimeout); err != nil || !strings.HasPrefix(l, "+OK") {
				fail("harness", "pop3 greeting: %q %v", l, err)
				return o
			}
			for _, cmd := range []string{"USER " + box, "PASS x"} {
				if l, err := cl.cmd(cmd); err != nil || !strings.HasPrefix(l, "+OK") {
					fail("harness", "pop3 %s: %q %v", cmd, l, err)
					return o
				}
			}
			if s.State == "marked" {
				if l, err := cl.cmd("DELE 1"); err != nil || !strings.HasPrefix(l, "+OK") {
					fail("harness", "pop3 DELE: %q %v", l, err)
					return o
				}
			}
			continue
		}
		if s.State == "held" {
			holdNext.Store(true)
		}
		cl, err := dialSMTP(smtpAddr, c.TLS, s.State != "held")
		if err != nil {
			fail("harness", "dial smtp: %v", err)
			return o
		}
		clients[i], open[i] = cl, true
		if s.State == "held" {
			heldIdx = i
			select {
			case <-heldCh:
			case <-time.After(30 * time.Second):
				o.Class("abandoned: the SMTP session to be held did not reach the yield point within 30 s")
				w.Cancel()
				release()
				for _, k := range clients {
					if k != nil {
						_ = k.conn.Close()
					}
				}
				return o
			}
			continue
		}
		if l, err := cl.line(hx.ReplyTimeout); err != nil || !strings.HasPrefix(l, "220") {
			fail("harness", "smtp greeting: %q %v", l, err)
			return o
		}
		var cmds []string
		switch s.State {
		case "greeted":
			cmds = []string{"HELO c.test"}
		case "mail":
			cmds = []string{"HELO c.test", "MAIL FROM:<s@a.test>"}
		case "rcpt":
			cmds = []string{"HELO c.test", "MAIL FROM:<s@a.test>", "RCPT TO:<" + box + "@a.test>"}
		case "data":
			cmds = []string{"HELO c.test", "MAIL FROM:<s@a.test>", "RCPT TO:<" + box + "@a.test>", "DATA"}
		}
		for _, cmd := range cmds {
			if l, err := cl.cmd(cmd); err != nil || !(strings.HasPrefix(l, "2") || strings.HasPrefix(l, "354")) {
				fail("harness", "smtp %s: %q %v", cmd, l, err)
				return o
			}
		}
		if s.State == "data" {
			_, _ = cl.conn.Write([]byte("Subject: in flight\r\n\r\nfirst half\r\n"))
		}
	}

	aborted := false
	// finish completes session i's dialogue from its state
	finish := func(i int) {
		s, cl := c.Sessions[i], clients[i]
		box := fmt.Sprintf("sess%d", i)
		defer func() { _ = cl.conn.Close(); open[i] = false }()
		if s.Proto == "smtp" && i < len(c.Abort) && c.Abort[i] && s.State != "held" {
			// the client vanishes: TCP reset in whatever state the dialogue is; the session must end
			// (and be accounted for by Drain) all the same
			cl.reset()
			aborted = true
			return
		}
		if s.Proto == "pop3" && s.State == "pheld" {
			if l, err := cl.line(hx.ReplyTimeout); err != nil || !strings.HasPrefix(l, "+OK") {
				fail("session-cut", "held POP3 session %d: greeting %q (err %v)", i, l, err)
				return
			}
			for _, cmd := range []string{"USER " + box, "PASS x", "DELE 1"} {
				if l, err := cl.cmd(cmd); err != nil || !strings.HasPrefix(l, "+OK") {
					fail("session-cut", "held POP3 session %d: %s answered %q (err %v)", i, cmd, l, err)
					return
				}
			}
		}
		if s.Proto == "pop3" {
			if l, err := cl.cmd("QUIT"); err != nil || !strings.HasPrefix(l, "+OK") {
				fail("session-cut", "POP3 session %d: QUIT answered %q (err %v)", i, l, err)
				return
			}
			time.Sleep(20 * time.Millisecond)
			ms, _ := w.Store.GetMessages(box)
			want := 2
			if s.State == "marked" || s.State == "pheld" {
				want = 1
			}
			for try := 0; try < 200 && len(ms) != want; try++ {
				time.Sleep(5 * time.Millisecond)
				ms, _ = w.Store.GetMessages(box)
			}
			if len(ms) != want {
				fail("pop3-deletes-lost", "POP3 session %d (%s) quit: mailbox holds %d messages, expected %d", i, s.State, len(ms), want)
			}
			return
		}
		var cmds []string
		switch s.State {
		case "held":
			if l, err := cl.line(hx.ReplyTimeout); err != nil || !strings.HasPrefix(l, "220") {
				fail("session-cut", "held SMTP session %d: greeting %q (err %v)", i, l, err)
				return
			}
			cmds = []string{"HELO c.test", "MAIL FROM:<s@a.test>", "RCPT TO:<" + box + "@a.test>", "DATA"}
		case "connected":
			cmds = []string{"HELO c.test", "MAIL FROM:<s@a.test>", "RCPT TO:<" + box + "@a.test>", "DATA"}
		case "greeted":
			cmds = []string{"MAIL FROM:<s@a.test>", "RCPT TO:<" + box + "@a.test>", "DATA"}
		case "mail":
			cmds = []string{"RCPT TO:<" + box + "@a.test>", "DATA"}
		case "rcpt":
			cmds = []string{"DATA"}
		}
		for _, cmd := range cmds {
			if l, err := cl.cmd(cmd); err != nil || !(strings.HasPrefix(l, "2") || strings.HasPrefix(l, "354")) {
				fail("session-cut", "SMTP session %d (%s): %s answered %q (err %v) after shutdown was requested", i, s.State, cmd, l, err)
				return
			}
		}
		if s.State != "data" {
			_, _ = cl.conn.Write([]byte("Subject: in flight\r\n\r\nfirst half\r\n"))
		}
		if l, err := cl.cmd("second half\r\n."); err != nil || !strings.HasPrefix(l, "250") {
			fail("inflight-lost", "SMTP session %d (%s): end of DATA answered %q (err %v)", i, s.State, l, err)
			return
		}
		ms, _ := w.Store.GetMessages(box)
		if len(ms) != 1 {
			fail("inflight-lost", "SMTP session %d (%s): acknowledged message is not in the store (%d messages)", i, s.State, len(ms))
		}
		_, _ = cl.cmd("QUIT")
	}

	cancelled := false
	_ = aborted
	var smtpDrained, pop3Drained atomic.Bool
	smtpDrainCh, pop3DrainCh := make(chan struct{}), make(chan struct{})
	drainStarted := map[string]bool{}
	anyOpen := func(proto string) bool {
		for i, s := range c.Sessions {
			if open[i] && s.Proto == proto {
				return true
			}
		}
		return false
	}
	checkDrain := func(where string) {
		if smtpDrained.Load() && anyOpen("smtp") {
			fail("drain-early", "%s: smtp Drain has returned although an accepted SMTP session is still running (held=%v)", where, heldIdx >= 0 && open[heldIdx])
		}
		if pop3Drained.Load() && anyOpen("pop3") {
			fail("drain-early", "%s: pop3 Drain has returned although a POP3 session is still running", where)
		}
	}
	midTxn := false
	var deferred []string
	for _, act := range c.Order {
		if o.Failed() {
			break
		}
		switch {
		case act == "cancel":
			for i, s := range c.Sessions {
				if open[i] && (s.State == "mail" || s.State == "rcpt" || s.State == "data" || s.State == "marked") {
					midTxn = true
				}
			}
			stopKnock := make(chan struct{})
			var knockers sync.WaitGroup
			for k := 0; k < c.Knock; k++ {
				knockers.Add(1)
				go func(addr string) {
					defer knockers.Done()
					for n := 0; n < 400; n++ {
						select {
						case <-stopKnock:
							return
						default:
						}
						conn, err := net.DialTimeout("tcp", addr, 200*time.Millisecond)
						if err != nil {
							time.Sleep(200 * time.Microsecond)
							continue
						}
						if tc, ok := conn.(*net.TCPConn); ok {
							_ = tc.SetLinger(0) // reset: no TIME_WAIT entries piling up
						}
						_ = conn.Close()
					}
				}([]string{smtpAddr, smtpAddr, pop3Addr}[k%3])
			}
			if c.Knock > 0 {
				time.Sleep(time.Millisecond)
				o.Class("connections arriving around the shutdown request")
			}
			w.Cancel()
			cancelled = true
			startsBack := within(o, "start-blocked", "smtp Start returning after cancel", 2*time.Second, smtpStarted) &&
				within(o, "start-blocked", "pop3 Start returning after cancel", 2*time.Second, pop3Started)
			close(stopKnock)
			knockers.Wait()
			if !startsBack {
				return o
			}
			if !within(o, "start-blocked", "smtp Start returning after cancel", 2*time.Second, smtpStarted) ||
				!within(o, "start-blocked", "pop3 Start returning after cancel", 2*time.Second, pop3Started) ||
				!within(o, "join-blocked", "the retention scanner stopping after cancel", 2*time.Second, rsDone) {
				return o
			}
			joined := make(chan struct{})
			go func() { rs.Join(); close(joined) }()
			within(o, "join-blocked", "RetentionScanner.Join after cancel", 2*time.Second, joined)
		case strings.HasPrefix(act, "drain-"):
			if !cancelled {
				deferred = append(deferred, act) // Drain is only called after shutdown was requested
				continue
			}
			drainStarted[act] = true
			if act == "drain-smtp" {
				go func() { w.SMTP.Drain(); smtpDrained.Store(true); close(smtpDrainCh) }()
			} else {
				go func() { w.POP3.Drain(); pop3Drained.Store(true); close(pop3DrainCh) }()
			}
			time.Sleep(10 * time.Millisecond) // give a premature return the chance to show
			checkDrain("after starting " + act)
		case strings.HasPrefix(act, "connect-"):
			addr, greet := smtpAddr, "220"
			if act == "connect-pop3" {
				addr, greet = pop3Addr, "+OK"
			}
			var cl *client
			var err error
			if act == "connect-smtp" {
				cl, err = dialSMTP(addr, c.TLS, !cancelled)
			} else {
				cl, err = dial(addr)
			}
			if !cancelled {
				if err != nil {
					fail("harness", "%s before cancel: %v", act, err)
					break
				}
				if l, err := cl.line(hx.ReplyTimeout); err != nil || !strings.HasPrefix(l, greet) {
					fail("harness", "%s before cancel: greeting %q %v", act, l, err)
				}
				_ = cl.conn.Close()
				break
			}
			if err == nil {
				if l, _ := cl.line(300 * time.Millisecond); strings.HasPrefix(l, greet) && strings.Contains(l, domain) {
					fail("accepted-after-shutdown", "%s after shutdown was requested: the connection was greeted with %q", act, l)
				}
				_ = cl.conn.Close()
			}
		case act == "release":
			release()
		case strings.HasPrefix(act, "finish:"):
			var i int
			fmt.Sscanf(act, "finish:%d", &i)
			if i == heldIdx && !released {
				release()
			}
			checkDrain("before finishing session " + fmt.Sprint(i))
			if !o.Failed() {
				finish(i)
			}
		}
	}
	if o.Failed() {
		return o
	}
	if !cancelled {
		w.Cancel()
	}
	release()
	for i := range c.Sessions {
		if open[i] {
			finish(i)
		}
	}
	if !drainStarted["drain-smtp"] {
		go func() { w.SMTP.Drain(); close(smtpDrainCh) }()
	}
	if !drainStarted["drain-pop3"] {
		go func() { w.POP3.Drain(); close(pop3DrainCh) }()
	}
	within(o, "drain-blocked", "smtp Drain returning after the last session ended", hx.ReplyTimeout, smtpDrainCh)
	within(o, "drain-blocked", "pop3 Drain returning after the last session ended", hx.ReplyTimeout, pop3DrainCh)
	o.NonTrivial = midTxn
	if c.TLS {
		o.Class("implicit-TLS SMTP listener")
	}
	if aborted {
		o.Class("a session ended by TCP reset")
	}
	if heldIdx >= 0 {
		o.Class("a session held at the accepted point (" + c.Sessions[heldIdx].Proto + ")")
	}
	if midTxn {
		o.Class("mid-transaction at cancel")
	}
	_ = deferred
	return o
}

// ---- quitdrain: what a session was told +OK for is done when Drain returns ----

type QCase struct {
	Backend string `json:"backend"`
	N       int    `json:"n"`     // messages in the mailbox
	Marks   int    `json:"marks"` // how many of them the session marks (the first Marks)
}

var propQuitDrain = hx.Prop[QCase]{
	ID: pid, Name: "quitdrain",
	Rule: "a POP3 session on a mailbox of 5-80 messages (mem or file store) marks 1..all of them; POP3Server.Drain is started (it must not return while the " +
		"session is open), the session sends QUIT and reads +OK; at the very moment Drain returns - which is when the process would exit - the marked " +
		"messages must be gone and the others there, without any waiting; non-trivial = at least 20 deletions on the file store; distinct = distinct case JSON",
	Quick: 30, Thorough: 300,
	Gen: func(t *rapid.T) QCase {
		c := QCase{Backend: rapid.SampledFrom([]string{"file", "file", "mem"}).Draw(t, "backend"), N: rapid.SampledFrom([]int{5, 20, 80}).Draw(t, "n")}
		c.Marks = rapid.SampledFrom([]int{1, c.N / 2, c.N}).Draw(t, "marks")
		return c
	},
	Run: func(c QCase) *hx.Outcome {
		o := &hx.Outcome{}
		cfg := hx.DefaultCfg()
		cfg.Backend, cfg.NoHTTP = c.Backend, true
		w, err := hx.NewWorld(cfg)
		if err != nil {
			o.Failf(pid+":harness", "world: %v", err)
			return o
		}
		defer w.Close()
		for i := 0; i < c.N; i++ {
			if _, err := w.Store.AddMessage(hx.NewDelivery("qbox", nil, nil, hx.BaseTime, "q", []byte(fmt.Sprintf("message %d", i)))); err != nil {
				o.Failf(pid+":harness", "AddMessage: %v", err)
				return o
			}
		}
		pc, _, err := w.DialPOP3()
		if err != nil {
			o.Failf(pid+":harness", "dial: %v", err)
			return o
		}
		defer pc.Close()
		if pr, err := pc.Login("qbox"); err != nil || !pr.OK {
			o.Failf(pid+":harness", "login: %v %v", pr, err)
			return o
		}
		for i := 1; i <= c.Marks; i++ {
			if pr, err := pc.Cmd(fmt.Sprintf("DELE %d", i), false); err != nil || !pr.OK {
				o.Failf(pid+":harness", "DELE %d: %v %v", i, pr, err)
				return o
			}
		}
		drained := make(chan struct{})
		go func() { w.POP3.Drain(); close(drained) }()
		select {
		case <-drained:
			o.Failf(pid+":drain-early", "POP3Server.Drain returned while a session with %d marked messages is still open", c.Marks)
			return o
		case <-time.After(20 * time.Millisecond):
		}
		if pr, err := pc.Cmd("QUIT", false); err != nil || !pr.OK {
			o.Failf(pid+":session-cut", "QUIT answered %v (err %v)", pr, err)
			return o
		}
		select {
		case <-drained:
		case <-time.After(hx.ReplyTimeout):
			o.Failf(pid+":drain-blocked", "POP3Server.Drain did not return within %v after the session's QUIT was answered", hx.ReplyTimeout)
			return o
		}
		ms, err := w.Store.GetMessages("qbox")
		if err != nil || len(ms) != c.N-c.Marks {
			o.Failf(pid+":pop3-deletes-lost", "[%s] when Drain returned, the mailbox held %d messages; the session had marked %d of %d and was answered +OK on QUIT (err %v)", c.Backend, len(ms), c.Marks, c.N, err)
		}
		o.NonTrivial = c.Backend == "file" && c.Marks >= 20
		o.Class("backend " + c.Backend)
		return o
	},
}

func TestProp(t *testing.T)    { prop.Check(t); propQuitDrain.Check(t) }
func TestRegress(t *testing.T) { prop.Regress(t); propQuitDrain.Regress(t) }
func TestReplay(t *testing.T) {
	if *hx.ReplayPath == "" {
		t.Skip("no -replay")
	}
	if !prop.Replay(t, *hx.ReplayPath) && !propQuitDrain.Replay(t, *hx.ReplayPath) {
		t.Fatalf("no prop matches %s", *hx.ReplayPath)
	}
}
func TestMain(m *testing.M) { hx.Main(m) }
