// Package c19a checks C19 on the whole assembly (server.FullAssembly + Services.Start), the
// way cmd/inbucket runs it: start-up with every listener healthy or one of them failing to
// bind, sessions open at shutdown, then the shutdown sequence of main.go (cancel, SMTP drain,
// POP3 drain, retention join). The web server keeps its listener in package globals, so one
// process runs one assembly at a time and this package is built without the race detector
// (two consecutive assemblies are ordered by a TCP probe, which the detector cannot see).
package c19a

import (
	"bufio"
	"context"
	"fmt"
	"net"
	"os"
	"runtime"
	"strings"
	"sync"
	"sync/atomic"
	"syscall"
	"testing"
	"time"

	"github.com/inbucket/inbucket/v3/pkg/config"
	"github.com/inbucket/inbucket/v3/pkg/extension"
	"github.com/inbucket/inbucket/v3/pkg/extension/event"
	"github.com/inbucket/inbucket/v3/pkg/server"
	"github.com/inbucket/inbucket/v3/pkg/server/web"
	"github.com/inbucket/inbucket/v3/pkg/storage"
	"github.com/inbucket/inbucket/v3/pkg/storage/file"
	"github.com/inbucket/inbucket/v3/pkg/storage/mem"
	"pgregory.net/rapid"
	"verif/harness/hx"
)

const pid = "C19"

func init() {
	// as cmd/inbucket/main.go registers them
	storage.Constructors["file"] = file.New
	storage.Constructors["memory"] = mem.New
}

// Case: which listener (if any) finds its port taken, whether retention is enabled, which
// sessions are open when shutdown is requested, and whether shutdown comes before start-up
// has finished.
type Case struct {
	Fail      string `json:"fail"`      // "" | smtp | pop3 | web
	Retention int    `json:"retention"` // seconds, 0 = scanner disabled
	Backend   string `json:"backend"`   // memory | file
	SMTP      string `json:"smtp"`      // "" | greeted | data  (session open at shutdown; only when nothing fails)
	POP3      string `json:"pop3"`      // "" | auth
	Early     bool   `json:"early"`     // cancel right after Start, without waiting for ready / the failure
	// Busy: the idle timeouts are 1 s and the open sessions keep talking (a command every
	// 100 ms) for 1.6 s after shutdown was requested before they finish.
	Busy bool `json:"busy,omitempty"`
	// BusyPOP3: with Busy and both sessions open, the SMTP session quits right after shutdown was
	// requested so that the sequence reaches the POP3 drain while the POP3 session is still active.
	BusyPOP3 bool `json:"busy_pop3,omitempty"`
	// AcceptDies: after a healthy start the SMTP accept loop meets a permanent error ("too many
	// open files": the process's descriptor table is filled for a moment) and reports it through
	// Notify; the shutdown that follows must still complete.
	AcceptDies bool `json:"accept_dies,omitempty"`
}

var prop = hx.Prop[Case]{
	ID: pid, Name: "assembly",
	Rule: "server.FullAssembly + Services.Start as in cmd/inbucket, on ephemeral ports: every listener healthy, or the SMTP / POP3 / web port already " +
		"taken (start-up failure reported through Notify); retention scanner disabled or enabled; 0-2 sessions open at shutdown (SMTP greeted or " +
		"mid-DATA, POP3 logged in); shutdown requested after readiness, after the failure notification, or immediately; then main.go's sequence " +
		"cancel, SMTPServer.Drain, POP3Server.Drain, RetentionScanner.Join. Oracle: ready is signalled iff nothing failed, a failure is notified; " +
		"no step of the sequence returns while a session it must wait for is open, the open sessions complete (250 for the message in flight, +OK for " +
		"QUIT, message stored), and the whole sequence finishes within 10 s once they have; afterwards the healthy listeners greet nobody; " +
		"non-trivial = a listener failed to bind, or a session was open at shutdown; distinct = distinct case JSON",
	Quick: 150, Thorough: 1500,
	Gen: func(t *rapid.T) Case {
		c := Case{
			Fail:      rapid.SampledFrom([]string{"", "", "smtp", "pop3", "web"}).Draw(t, "fail"),
			Retention: rapid.SampledFrom([]int{0, 3600, 86400}).Draw(t, "retention"),
			Backend:   rapid.SampledFrom([]string{"memory", "memory", "file"}).Draw(t, "backend"),
			Early:     rapid.IntRange(0, 5).Draw(t, "early") == 0,
		}
		if c.Fail == "" && !c.Early {
			c.SMTP = rapid.SampledFrom([]string{"", "greeted", "data", "data"}).Draw(t, "smtp")
			c.POP3 = rapid.SampledFrom([]string{"", "auth"}).Draw(t, "pop3")
			c.AcceptDies = rapid.IntRange(0, 7).Draw(t, "acceptdies") == 0
			c.Busy = !c.AcceptDies && (c.SMTP != "" || c.POP3 != "") && rapid.IntRange(0, 2).Draw(t, "busy") == 0
			c.BusyPOP3 = c.Busy && c.POP3 != "" && rapid.IntRange(0, 3).Draw(t, "busypop3") > 0
			if c.Busy && c.SMTP == "data" {
				// the DATA phase has one deadline for the whole block (it is not re-armed per
				// line), so a transfer cannot be stretched beyond the timeout; commands can
				c.SMTP = "greeted"
			}
		}
		return c
	},
	Run: run,
}

var worldSeq atomic.Int64

// busyTimeout is the idle timeout of the "busy" cases.
const busyTimeout = time.Second

type cl struct {
	c  net.Conn
	br *bufio.Reader
}

func dial(addr string) (*cl, error) {
	c, err := net.DialTimeout("tcp", addr, 2*time.Second)
	if err != nil {
		return nil, err
	}
	return &cl{c, bufio.NewReader(c)}, nil
}

func (c *cl) line(d time.Duration) (string, error) {
	_ = c.c.SetReadDeadline(time.Now().Add(d))
	l, err := c.br.ReadString('\n')
	return strings.TrimRight(l, "\r\n"), err
}

// cmd sends a line and returns the last line of the (possibly multi-line SMTP) reply.
func (c *cl) cmd(s string) (string, error) {
	_ = c.c.SetWriteDeadline(time.Now().Add(5 * time.Second))
	if _, err := c.c.Write([]byte(s + "\r\n")); err != nil {
		return "", err
	}
	for {
		l, err := c.line(10 * time.Second)
		if err != nil {
			return l, err
		}
		if len(l) >= 4 && l[3] == '-' && l[0] >= '0' && l[0] <= '9' {
			continue
		}
		return l, nil
	}
}

func run(c Case) *hx.Outcome {
	o := &hx.Outcome{}
	domain := fmt.Sprintf("c19a-%d-%d.test", os.Getpid(), worldSeq.Add(1))
	cfg := hx.DefaultCfg()
	cfg.Domain = domain
	conf, err := hx.ProcessCfg(cfg)
	if err != nil {
		o.Failf(pid+":harness", "config: %v", err)
		return o
	}
	conf.Web.Addr = "127.0.0.1:0"
	if c.Busy {
		conf.SMTP.Timeout, conf.POP3.Timeout = busyTimeout, busyTimeout
	}
	conf.Storage.Type = c.Backend
	conf.Storage.RetentionPeriod = time.Duration(c.Retention) * time.Second
	if c.Backend == "file" {
		dir := hx.TempDir()
		defer os.RemoveAll(dir)
		conf.Storage.Params = map[string]string{"path": dir}
	}
	// the port one listener will find taken
	var squatter net.Listener
	var knownSMTP, knownPOP3 string
	if c.Fail != "" {
		squatter, err = net.Listen("tcp", "127.0.0.1:0")
		if err != nil {
			o.Failf(pid+":harness", "listen: %v", err)
			return o
		}
		defer squatter.Close()
		switch c.Fail {
		case "smtp":
			conf.SMTP.Addr = squatter.Addr().String()
		case "pop3":
			conf.POP3.Addr = squatter.Addr().String()
		case "web":
			conf.Web.Addr = squatter.Addr().String()
		}
		// The listeners that are to come up get ports chosen here, so that they can be probed from
		// outside after the failure: their readiness is not signalled in this situation, and the
		// servers' fields must not be read without it.
		if c.Fail != "smtp" {
			conf.SMTP.Addr = freePort()
			knownSMTP = conf.SMTP.Addr
		}
		if c.Fail != "pop3" {
			conf.POP3.Addr = freePort()
			knownPOP3 = conf.POP3.Addr
		}
	}
	web.Router = hx.FreshRouter() // the package's own initial router, without routes
	svc, err := server.FullAssembly(conf)
	if err != nil {
		o.Failf(pid+":harness", "FullAssembly: %v", err)
		return o
	}
	// what enters and leaves mailboxes is observed through the public extension API
	var evMu sync.Mutex
	stored, deleted := map[string]int{}, map[string]int{}
	svc.ExtHost.Events.AfterMessageStored.AddListener("c19a", func(m event.MessageMetadata) { evMu.Lock(); stored[m.Mailbox]++; evMu.Unlock() })
	svc.ExtHost.Events.AfterMessageDeleted.AddListener("c19a", func(m event.MessageMetadata) { evMu.Lock(); deleted[m.Mailbox]++; evMu.Unlock() })
	count := func(m map[string]int, box string, want int) bool {
		for i := 0; i < 10000; i++ {
			evMu.Lock()
			n := m[box]
			evMu.Unlock()
			if n >= want {
				return n == want
			}
			time.Sleep(time.Millisecond)
		}
		return false
	}
	ctx, cancel := context.WithCancel(context.Background())
	defer cancel()
	ready := make(chan struct{})
	svc.Start(ctx, func() { close(ready) })

	fail := func(key, f string, a ...interface{}) {
		o.Failf(pid+":"+key, "[fail=%q retention=%ds %s early=%v smtp=%q pop3=%q] %s", c.Fail, c.Retention, c.Backend, c.Early, c.SMTP, c.POP3, fmt.Sprintf(f, a...))
	}
	isReady := false
	abandoned := false
	if !c.Early {
		if c.Fail == "" {
			select {
			case <-ready:
				isReady = true
			case err := <-svc.Notify():
				fail("harness", "a service failed to start on an ephemeral port: %v", err)
			case <-time.After(15 * time.Second):
				fail("never-ready", "all listeners are free, yet readiness was not signalled within 15 s")
			}
		} else {
			select {
			case <-ready:
				fail("ready-despite-failure", "the %s port is taken, yet the assembly signalled that all services are ready", c.Fail)
			case err := <-svc.Notify():
				if err == nil {
					fail("notify-nil", "the %s port is taken; Notify delivered a nil error", c.Fail)
				} else if _, port, _ := net.SplitHostPort(squatter.Addr().String()); !strings.Contains(err.Error(), port) {
					// another listener lost its (pre-chosen) port to somebody else in the meantime
					abandoned = true
				}
			case <-time.After(15 * time.Second):
				fail("failure-not-notified", "the %s port is taken, yet no failure was notified within 15 s", c.Fail)
			}
		}
	}
	var smtpAddr, pop3Addr string
	if !isReady && !c.Early && c.Fail != "" && !o.Failed() {
		// one service failed; the others bind within moments: wait (from outside) until they greet
		up := func(addr string) string {
			for i := 0; i < 100; i++ {
				if d, err := dial(addr); err == nil {
					l, _ := d.line(time.Second)
					_ = d.c.Close()
					if strings.Contains(l, domain) {
						return addr
					}
				}
				time.Sleep(10 * time.Millisecond)
			}
			return "" // never came up (its port may have been taken in the meantime): not probed
		}
		if knownSMTP != "" {
			smtpAddr = up(knownSMTP)
		}
		if knownPOP3 != "" {
			pop3Addr = up(knownPOP3)
		}
	}
	var sc, pc *cl
	lastTalk := time.Now() // no later than the sessions' first exchange: gaps are over-estimated, never under-estimated
	if isReady {
		// readiness is signalled after each listener is bound: the accessors are safe now
		smtpAddr, pop3Addr = svc.SMTPServer.VerifAddr().String(), svc.POP3Server.VerifAddr().String()
		if c.POP3 != "" || c.SMTP != "" {
			// a message for the POP3 session to work on
			if d, err := dial(smtpAddr); err == nil {
				_, _ = d.line(10 * time.Second)
				for _, s := range []string{"HELO c.test", "MAIL FROM:<s@a.test>", "RCPT TO:<pbox@a.test>", "DATA"} {
					_, _ = d.cmd(s)
				}
				if l, err := d.cmd("Subject: one\r\n\r\nbody\r\n."); err != nil || !strings.HasPrefix(l, "250") {
					fail("harness", "priming delivery answered %q %v", l, err)
				}
				_, _ = d.cmd("QUIT")
				_ = d.c.Close()
			} else {
				fail("harness", "dial smtp: %v", err)
			}
		}
		if c.SMTP != "" && !o.Failed() {
			sc, err = dial(smtpAddr)
			if err != nil {
				fail("harness", "dial smtp: %v", err)
			} else {
				l, _ := sc.line(10 * time.Second)
				if !strings.HasPrefix(l, "220") || !strings.Contains(l, domain) {
					fail("harness", "SMTP greeting %q", l)
				}
				if c.SMTP == "data" {
					for _, s := range []string{"HELO c.test", "MAIL FROM:<s@a.test>", "RCPT TO:<inflight@a.test>", "DATA"} {
						if l, err := sc.cmd(s); err != nil || (l[0] != '2' && l[0] != '3') {
							fail("harness", "%s answered %q %v", s, l, err)
						}
					}
					_, _ = sc.c.Write([]byte("Subject: in flight\r\n\r\nfirst half\r\n"))
				}
			}
		}
		if c.POP3 != "" && !o.Failed() {
			pc, err = dial(pop3Addr)
			if err != nil {
				fail("harness", "dial pop3: %v", err)
			} else {
				_, _ = pc.line(10 * time.Second)
				for _, s := range []string{"USER pbox", "PASS x", "DELE 1"} {
					if l, err := pc.cmd(s); err != nil || !strings.HasPrefix(l, "+OK") {
						fail("harness", "POP3 %s answered %q %v", s, l, err)
					}
				}
			}
		}
	}
	if o.Failed() || abandoned {
		if abandoned {
			o.Class("abandoned: a pre-chosen port was taken by another process")
		}
		cancel()
		waitWebDown()
		return o
	}

	if c.AcceptDies && isReady {
		restore, err := starveAccept(smtpAddr)
		if err != nil {
			restore()
			o.Class("abandoned: could not fill the descriptor table")
			cancel()
			if sc != nil {
				_ = sc.c.Close()
			}
			if pc != nil {
				_ = pc.c.Close()
			}
			waitWebDown()
			return o
		}
		select {
		case <-svc.Notify():
			restore()
			o.Class("SMTP accept loop ended by a permanent error before shutdown")
		case <-time.After(3 * time.Second):
			// the accept did not fail (the kernel had the connection accepted before the table was full)
			restore()
			o.Class("abandoned: the accept loop survived")
		}
	}

	// ---- shutdown, as main.go does it ----
	cancel()
	var step atomic.Int32 // 1 = smtp drained, 2 = pop3 drained, 3 = retention joined
	seqDone := make(chan struct{})
	go func() {
		svc.SMTPServer.Drain()
		step.Store(1)
		svc.POP3Server.Drain()
		step.Store(2)
		svc.RetentionScanner.Join()
		step.Store(3)
		close(seqDone)
	}()
	names := []string{"nothing yet", "SMTP drained", "POP3 drained", "retention scanner joined"}
	if sc != nil || pc != nil {
		time.Sleep(100 * time.Millisecond)
		if sc != nil && step.Load() >= 1 {
			fail("drain-early", "SMTPServer.Drain returned while an SMTP session (%s) is still open", c.SMTP)
		}
		if pc != nil && step.Load() >= 2 {
			fail("drain-early", "POP3Server.Drain returned while a POP3 session is still open")
		}
	}
	if c.BusyPOP3 && sc != nil {
		if l, err := sc.cmd("QUIT"); err != nil || !strings.HasPrefix(l, "221") {
			fail("session-cut", "QUIT on the SMTP session open at shutdown answered %q (err %v)", l, err)
		}
		_ = sc.c.Close()
		sc = nil
	}
	if c.Busy && !o.Failed() {
		// sessions that stay active outlive the idle timeout (1 s): the drains have to wait for
		// them. The harness measures its own gaps: if it was itself too slow to keep a session
		// alive (a loaded machine), the case is abandoned, not reported.
		slow := false
		lastSMTP, lastPOP3 := lastTalk, lastTalk
		t0 := time.Now()
		for time.Since(t0) < 1600*time.Millisecond && !o.Failed() && !slow {
			time.Sleep(100 * time.Millisecond)
			at := time.Since(t0).Milliseconds()
			if sc != nil {
				gap := time.Since(lastSMTP)
				l, err := sc.cmd("NOOP")
				if err != nil || !strings.HasPrefix(l, "250") {
					if gap > busyTimeout/2 {
						slow = true
						break
					}
					fail("session-cut", "an SMTP session sending NOOP every 100 ms (idle timeout %v, %v since its previous command) got %q (err %v) %d ms after shutdown was requested", busyTimeout, gap, l, err, at)
				}
				lastSMTP = time.Now()
				if step.Load() >= 1 {
					fail("drain-early", "SMTPServer.Drain returned %d ms after shutdown was requested while an active SMTP session is still open", at)
				}
			}
			if pc != nil {
				gap := time.Since(lastPOP3)
				l, err := pc.cmd("NOOP")
				if err != nil || !strings.HasPrefix(l, "+OK") {
					if gap > busyTimeout/2 {
						slow = true
						break
					}
					fail("session-cut", "a POP3 session sending NOOP every 100 ms (idle timeout %v, %v since its previous command) got %q (err %v) %d ms after shutdown was requested", busyTimeout, gap, l, err, at)
				}
				lastPOP3 = time.Now()
				if step.Load() >= 2 {
					fail("drain-early", "POP3Server.Drain returned %d ms after shutdown was requested while an active POP3 session is still open", at)
				}
			}
		}
		if slow {
			// let everything end, judge nothing
			o.Class("busy case abandoned: the harness itself was too slow to keep a session alive")
			if sc != nil {
				_ = sc.c.Close()
			}
			if pc != nil {
				_ = pc.c.Close()
			}
			select {
			case <-seqDone:
			case <-time.After(10 * time.Second):
			}
			waitWebDown()
			return o
		}
		o.Class("sessions active beyond the idle timeout")
	}
	// the open sessions complete
	if sc != nil {
		if c.SMTP == "data" {
			if l, err := sc.cmd("second half\r\n."); err != nil || !strings.HasPrefix(l, "250") {
				fail("session-cut", "the message in flight at shutdown was answered %q (err %v), want 250", l, err)
			}
		}
		if l, err := sc.cmd("QUIT"); err != nil || !strings.HasPrefix(l, "221") {
			fail("session-cut", "QUIT on the SMTP session open at shutdown answered %q (err %v)", l, err)
		}
		_ = sc.c.Close()
	}
	if pc != nil {
		if l, err := pc.cmd("QUIT"); err != nil || !strings.HasPrefix(l, "+OK") {
			fail("session-cut", "QUIT on the POP3 session open at shutdown answered %q (err %v)", l, err)
		}
		_ = pc.c.Close()
	}
	select {
	case <-seqDone:
	case <-time.After(10 * time.Second):
		fail("shutdown-blocked", "10 s after shutdown was requested and every session had ended the sequence cancel / SMTP drain / POP3 drain / retention join is still blocked; last completed step: %s", names[step.Load()])
		waitWebDown()
		return o
	}
	if (isReady || smtpAddr != "" || pop3Addr != "") && !o.Failed() {
		if c.SMTP == "data" {
			if !count(stored, "inflight", 1) {
				fail("inflight-lost", "the message acknowledged with 250 during shutdown produced no (or more than one) stored event for its mailbox")
			}
		}
		if c.POP3 != "" {
			if !count(deleted, "pbox", 1) {
				fail("dele-lost", "the deletion pending at shutdown was not applied on QUIT (no deleted event for the marked message)")
			}
		}
		// Start closes each listener in its own goroutine when the context ends; nothing in the
		// shutdown sequence waits for that, so "stops accepting" is given 2 s to become true.
		for name, addr := range map[string]string{"SMTP": smtpAddr, "POP3": pop3Addr} {
			if addr == "" {
				continue
			}
			greeted := ""
			for deadline := time.Now().Add(2 * time.Second); time.Now().Before(deadline); time.Sleep(20 * time.Millisecond) {
				greeted = ""
				d, err := dial(addr)
				if err != nil {
					break
				}
				if l, _ := d.line(300 * time.Millisecond); strings.Contains(l, domain) {
					greeted = l
				}
				_ = d.c.Close()
				if greeted == "" {
					break
				}
			}
			if greeted != "" {
				fail("accepted-after-shutdown", "2 s after the shutdown sequence completed the %s listener still greets: %q", name, greeted)
			}
		}
	}
	waitWebDown()
	o.Class("listener failing: " + map[string]string{"": "none"}[c.Fail] + c.Fail)
	if c.Early {
		o.Class("shutdown right after Start")
	}
	if c.Retention > 0 {
		o.Class("retention enabled")
	}
	if sc != nil || pc != nil {
		o.Class("session open at shutdown")
	}
	o.NonTrivial = c.Fail != "" || sc != nil || pc != nil
	return o
}

// starveAccept makes the next accept on addr fail with EMFILE: the soft descriptor limit is
// lowered to just above what the process uses, the table is filled, one slot is freed for a
// client socket and that client connects. restore undoes all of it.
func starveAccept(addr string) (restore func(), err error) {
	var old syscall.Rlimit
	var fill []*os.File
	var conn net.Conn
	restore = func() {
		if conn != nil {
			_ = conn.Close()
		}
		for _, f := range fill {
			_ = f.Close()
		}
		if old.Cur != 0 {
			_ = syscall.Setrlimit(syscall.RLIMIT_NOFILE, &old)
		}
	}
	if err = syscall.Getrlimit(syscall.RLIMIT_NOFILE, &old); err != nil {
		return restore, err
	}
	ents, err := os.ReadDir("/proc/self/fd")
	if err != nil {
		return restore, err
	}
	lim := old
	lim.Cur = uint64(len(ents) + 64)
	if lim.Cur > old.Cur {
		return restore, fmt.Errorf("limit already low")
	}
	if err = syscall.Setrlimit(syscall.RLIMIT_NOFILE, &lim); err != nil {
		return restore, err
	}
	for i := 0; i < 4096; i++ {
		f, oerr := os.Open("/dev/null")
		if oerr != nil {
			break
		}
		fill = append(fill, f)
	}
	if len(fill) == 0 {
		return restore, fmt.Errorf("nothing could be opened")
	}
	_ = fill[len(fill)-1].Close()
	fill = fill[:len(fill)-1]
	conn, err = net.DialTimeout("tcp", addr, 2*time.Second)
	return restore, err
}

// freePort returns a loopback address that was free a moment ago.
func freePort() string {
	l, err := net.Listen("tcp", "127.0.0.1:0")
	if err != nil {
		return "127.0.0.1:0"
	}
	defer l.Close()
	return l.Addr().String()
}

// waitWebDown lets the web server of this assembly finish with its (package-global)
// listener before the next assembly replaces it: no goroutine may be left inside
// web.(*Server).Start or serve.
func waitWebDown() {
	buf := make([]byte, 1<<20)
	for i := 0; i < 500; i++ {
		n := runtime.Stack(buf, true)
		d := string(buf[:n])
		if !strings.Contains(d, "web.(*Server).Start") && !strings.Contains(d, "web.(*Server).serve") {
			return
		}
		time.Sleep(10 * time.Millisecond)
	}
}

// ---- scanstop: a retention scan in progress ends when shutdown is requested ----

// SCase: a scan over NBox mailboxes pausing SleepMs between them (config RetentionSleep) is
// cancelled CancelMs after it started.
type SCase struct {
	Backend  string `json:"backend"`
	NBox     int    `json:"nbox"`
	SleepMs  int    `json:"sleep_ms"`
	CancelMs int    `json:"cancel_ms"`
}

var propScanStop = hx.Prop[SCase]{
	ID: pid, Name: "scanstop",
	Rule: "a retention scan (RetentionScanner.DoScan, what Start runs once a minute) over 1-6 mailboxes with RetentionSleep 0 / 50 ms / 2 s / 45 s " +
		"between mailboxes is cancelled 0-300 ms after it began, i.e. before, inside or between its pauses: it must return within 2 s of the " +
		"cancellation (it must never take a whole pause to notice), having deleted nothing but expired mail; non-trivial = the remaining pauses " +
		"would have lasted longer than the bound; distinct = distinct case JSON",
	Quick: 40, Thorough: 300,
	Gen: func(t *rapid.T) SCase {
		return SCase{Backend: rapid.SampledFrom([]string{"memory", "file"}).Draw(t, "backend"), NBox: rapid.IntRange(1, 6).Draw(t, "nbox"),
			SleepMs: rapid.SampledFrom([]int{0, 50, 2000, 45000, 45000}).Draw(t, "sleep"), CancelMs: rapid.SampledFrom([]int{0, 1, 5, 50, 300}).Draw(t, "cancel")}
	},
	Run: func(c SCase) *hx.Outcome {
		o := &hx.Outcome{}
		var st storage.Store
		host := extension.NewHost()
		if c.Backend == "file" {
			dir := hx.TempDir()
			defer os.RemoveAll(dir)
			st = hx.NewFile(host, dir, 0)
		} else {
			st = hx.NewMem(host, 0, 0)
		}
		var young []string
		for b := 0; b < c.NBox; b++ {
			box := fmt.Sprintf("box%d", b)
			if _, err := st.AddMessage(hx.NewDelivery(box, nil, nil, time.Now().Add(-48*time.Hour), "old", []byte("old"))); err != nil {
				o.Failf(pid+":harness", "AddMessage: %v", err)
				return o
			}
			id, _ := st.AddMessage(hx.NewDelivery(box, nil, nil, time.Now(), "young", []byte("young")))
			young = append(young, box+"/"+id)
		}
		rs := storage.NewRetentionScanner(config.Storage{RetentionPeriod: time.Hour, RetentionSleep: time.Duration(c.SleepMs) * time.Millisecond}, st)
		ctx, cancel := context.WithCancel(context.Background())
		done := make(chan error, 1)
		go func() { done <- rs.DoScan(ctx) }()
		time.Sleep(time.Duration(c.CancelMs) * time.Millisecond)
		cancel()
		t0 := time.Now()
		select {
		case <-done:
		case <-time.After(2 * time.Second):
			o.Failf(pid+":scan-blocks-shutdown", "[%s, %d mailboxes, pause %d ms] the retention scan is still running 2 s after shutdown was requested (%d ms into the scan)", c.Backend, c.NBox, c.SleepMs, c.CancelMs)
			return o
		}
		_ = t0
		for _, y := range young {
			f := strings.SplitN(y, "/", 2)
			if m, err := st.GetMessage(f[0], f[1]); err != nil || m == nil {
				o.Failf(pid+":young-deleted", "the interrupted scan deleted the unexpired message %s (%v)", y, err)
			}
		}
		o.NonTrivial = c.SleepMs*(c.NBox) > 2500
		o.Class(fmt.Sprintf("pause %d ms", c.SleepMs))
		return o
	},
}

func TestProp(t *testing.T)    { prop.Check(t); propScanStop.Check(t); propDaemon.Check(t) }
func TestRegress(t *testing.T) { prop.Regress(t); propScanStop.Regress(t); propDaemon.Regress(t) }
func TestReplay(t *testing.T) {
	if *hx.ReplayPath == "" {
		t.Skip("no -replay")
	}
	if !prop.Replay(t, *hx.ReplayPath) && !propScanStop.Replay(t, *hx.ReplayPath) && !propDaemon.Replay(t, *hx.ReplayPath) {
		t.Fatalf("no prop matches %s", *hx.ReplayPath)
	}
}
func TestMain(m *testing.M) { hx.Main(m) }
