package c19a

import (
	"bufio"
	"fmt"
	"net"
	"os"
	"os/exec"
	"path/filepath"
	"strings"
	"sync"
	"syscall"
	"time"

	"pgregory.net/rapid"
	"verif/harness/hx"
)

// ---- daemon: the real cmd/inbucket process ----

// DCase: how shutdown is requested from the real daemon.
type DCase struct {
	Trigger   string `json:"trigger"`   // sigint | sigterm | pop3-taken | smtp-taken | web-taken
	Retention bool   `json:"retention"` // retention scanner enabled (period 1 h) or disabled (0)
	Session   string `json:"session"`   // signal triggers only: "" | "smtp-data" (an SMTP session in the middle of DATA at the moment of the signal)
}

var (
	daemonOnce sync.Once
	daemonBin  string
	daemonErr  error
)

// buildDaemon compiles cmd/inbucket from the tree under test (no build tags: the production binary).
func buildDaemon() (string, error) {
	daemonOnce.Do(func() {
		// next to this run's other output (scratch, replaced by the next run); a temporary
		// directory only when run by hand
		dir := os.Getenv("VERIF_OUT")
		if dir == "" {
			var err error
			if dir, err = os.MkdirTemp("", "verif-daemon-"); err != nil {
				daemonErr = err
				return
			}
		}
		daemonBin = filepath.Join(dir, fmt.Sprintf("inbucket-%d.bin", os.Getpid()))
		cmd := exec.Command("go", "build", "-o", daemonBin, "github.com/inbucket/inbucket/v3/cmd/inbucket")
		if out, err := cmd.CombinedOutput(); err != nil {
			daemonErr = fmt.Errorf("go build cmd/inbucket: %v\n%s", err, out)
		}
	})
	return daemonBin, daemonErr
}

var propDaemon = hx.Prop[DCase]{
	ID: pid, Name: "daemon",
	Rule: "the production binary (go build cmd/inbucket from the tree under test, no build tags) runs as a child process on three free loopback ports, " +
		"memory store, retention scanner on or off; shutdown is requested by SIGINT or SIGTERM once all three listeners answer (optionally with an SMTP " +
		"session in the middle of DATA, which then completes), or comes from a service failure (the SMTP, POP3 or web port is already taken); oracle: " +
		"after the request no new SMTP connection is greeted by the daemon (probed 0.5-1.5 s later), the in-flight message is acknowledged, and the " +
		"process exits within 8 s of the request / of its 'service failure' log line once the session has ended (one-sided: its own forced exit " +
		"comes after 15 s); non-trivial = a service failure, or a session open at the signal; distinct = distinct case JSON",
	Quick: 5, Thorough: 12,
	Gen: func(t *rapid.T) DCase {
		c := DCase{Trigger: rapid.SampledFrom([]string{"sigint", "sigterm", "pop3-taken", "pop3-taken", "smtp-taken", "web-taken"}).Draw(t, "trigger"),
			Retention: rapid.IntRange(0, 3).Draw(t, "retention") > 0}
		if strings.HasPrefix(c.Trigger, "sig") {
			c.Session = rapid.SampledFrom([]string{"", "smtp-data"}).Draw(t, "session")
		}
		return c
	},
	Run: func(c DCase) *hx.Outcome {
		o := &hx.Outcome{NonTrivial: !strings.HasPrefix(c.Trigger, "sig") || c.Session != ""}
		o.Class("trigger " + c.Trigger)
		bin, err := buildDaemon()
		if err != nil {
			o.Failf(pid+":harness", "%v", err)
			return o
		}
		smtpAddr, pop3Addr, webAddr := freePort(), freePort(), freePort()
		var taken net.Listener
		if i := strings.Index(c.Trigger, "-taken"); i > 0 {
			addr := map[string]string{"smtp": smtpAddr, "pop3": pop3Addr, "web": webAddr}[c.Trigger[:i]]
			if taken, err = net.Listen("tcp", addr); err != nil {
				o.Failf(pid+":harness", "occupying %s: %v", addr, err)
				return o
			}
			defer taken.Close()
		}
		domain := fmt.Sprintf("c19d-%d-%d.test", os.Getpid(), worldSeq.Add(1))
		uidir, _ := os.MkdirTemp("", "verif-ui-")
		defer os.RemoveAll(uidir)
		period := "0"
		if c.Retention {
			period = "1h"
		}
		cmd := exec.Command(bin, "-logjson")
		cmd.Env = append(os.Environ(), "INBUCKET_SMTP_ADDR="+smtpAddr, "INBUCKET_POP3_ADDR="+pop3Addr, "INBUCKET_WEB_ADDR="+webAddr,
			"INBUCKET_SMTP_DOMAIN="+domain, "INBUCKET_POP3_DOMAIN="+domain, "INBUCKET_STORAGE_TYPE=memory", "INBUCKET_STORAGE_RETENTIONPERIOD="+period,
			"INBUCKET_WEB_UIDIR="+uidir, "INBUCKET_LOGLEVEL=debug")
		stderr, err := cmd.StderrPipe()
		if err != nil {
			o.Failf(pid+":harness", "pipe: %v", err)
			return o
		}
		if err := cmd.Start(); err != nil {
			o.Failf(pid+":harness", "start: %v", err)
			return o
		}
		exited := make(chan struct{})
		failureLine := make(chan time.Time, 1)
		var logMu sync.Mutex
		var logTail []string
		go func() {
			sc := bufio.NewScanner(stderr)
			sc.Buffer(nil, 1<<20)
			for sc.Scan() {
				l := sc.Text()
				logMu.Lock()
				if logTail = append(logTail, l); len(logTail) > 40 {
					logTail = logTail[1:]
				}
				logMu.Unlock()
				if strings.Contains(l, "Shutting down due to service failure") {
					select {
					case failureLine <- time.Now():
					default:
					}
				}
			}
			_ = cmd.Wait()
			close(exited)
		}()
		defer func() {
			select {
			case <-exited:
			default:
				_ = cmd.Process.Kill()
				<-exited
			}
		}()
		tail := func() string {
			logMu.Lock()
			defer logMu.Unlock()
			return strings.Join(logTail, "\n")
		}
		// greeted reports whether a new connection to the SMTP port is greeted by this daemon
		greeted := func() bool {
			k, err := dial(smtpAddr)
			if err != nil {
				return false
			}
			defer k.c.Close()
			l, _ := k.line(500 * time.Millisecond)
			return strings.HasPrefix(l, "220") && strings.Contains(l, domain)
		}
		var requested time.Time
		if strings.HasPrefix(c.Trigger, "sig") {
			// ready = all three listeners answer
			deadline := time.Now().Add(15 * time.Second)
			for _, addr := range []string{smtpAddr, pop3Addr, webAddr} {
				for {
					k, err := net.DialTimeout("tcp", addr, 200*time.Millisecond)
					if err == nil {
						_ = k.Close()
						break
					}
					select {
					case <-exited:
						o.Failf(pid+":harness", "the daemon exited during start-up:\n%s", tail())
						return o
					default:
					}
					if time.Now().After(deadline) {
						o.Failf(pid+":harness", "the daemon did not listen on %s within 15 s:\n%s", addr, tail())
						return o
					}
					time.Sleep(20 * time.Millisecond)
				}
			}
			var sess *cl
			if c.Session == "smtp-data" {
				if sess, err = dial(smtpAddr); err != nil {
					o.Failf(pid+":harness", "dial: %v", err)
					return o
				}
				defer sess.c.Close()
				if l, err := sess.line(5 * time.Second); err != nil || !strings.HasPrefix(l, "220") {
					o.Failf(pid+":harness", "greeting %q %v", l, err)
					return o
				}
				for _, s := range []string{"HELO c.test", "MAIL FROM:<s@a.test>", "RCPT TO:<r@a.test>", "DATA"} {
					if l, err := sess.cmd(s); err != nil || !(strings.HasPrefix(l, "2") || strings.HasPrefix(l, "354")) {
						o.Failf(pid+":harness", "%s: %q %v", s, l, err)
						return o
					}
				}
				_, _ = sess.c.Write([]byte("Subject: in flight\r\n\r\nfirst half\r\n"))
			}
			sig := syscall.SIGINT
			if c.Trigger == "sigterm" {
				sig = syscall.SIGTERM
			}
			if err := cmd.Process.Signal(sig); err != nil {
				o.Failf(pid+":harness", "signal: %v", err)
				return o
			}
			requested = time.Now()
			time.Sleep(500 * time.Millisecond)
			if greeted() {
				o.Failf(pid+":accepted-after-shutdown", "[%s] 0.5 s after the signal a new SMTP connection was greeted by the daemon\n%s", c.Trigger, tail())
			}
			if sess != nil {
				if l, err := sess.cmd("second half\r\n."); err != nil || !strings.HasPrefix(l, "250") {
					o.Failf(pid+":inflight-lost", "[%s] the session that was in DATA at the signal: end of DATA answered %q (err %v)\n%s", c.Trigger, l, err, tail())
				}
				_, _ = sess.cmd("QUIT")
				_ = sess.c.Close()
				requested = time.Now() // the bound runs from the moment nothing keeps the daemon
			}
		} else {
			select {
			case requested = <-failureLine:
			case <-exited:
				requested = time.Now()
			case <-time.After(15 * time.Second):
				o.Failf(pid+":failure-ignored", "[%s] the daemon neither announced a shutdown nor exited within 15 s although its port was taken\n%s", c.Trigger, tail())
				return o
			}
			time.Sleep(time.Second)
			select {
			case <-exited:
			default:
				if c.Trigger != "smtp-taken" && greeted() {
					o.Failf(pid+":accepted-after-shutdown", "[%s] 1 s after 'Shutting down due to service failure' a new SMTP connection was greeted by the daemon\n%s", c.Trigger, tail())
				}
			}
		}
		select {
		case <-exited:
		case <-time.After(time.Until(requested.Add(8 * time.Second))):
			o.Failf(pid+":shutdown-stuck", "[%s retention=%v] the daemon is still running 8 s after shutdown was requested and its last session ended\n%s", c.Trigger, c.Retention, tail())
		}
		return o
	},
}
