package c12

import (
	"context"
	"fmt"
	"os"
	"strings"
	"sync"
	"sync/atomic"
	"testing"
	"time"

	"github.com/inbucket/inbucket/v3/pkg/config"
	"github.com/inbucket/inbucket/v3/pkg/extension"
	"github.com/inbucket/inbucket/v3/pkg/storage"
	"github.com/inbucket/inbucket/v3/pkg/stringutil"
	"github.com/inbucket/inbucket/v3/pkg/verifhook"
	"pgregory.net/rapid"
	"verif/harness/hx"
)

const pid = "C12"

// Msg is a pre-existing message: mailbox and an age class relative to the period.
type Msg struct {
	Box int    `json:"box"`
	Age string `json:"age"` // ancient | expired | fresh | future
}

// Inj is an operation injected while the scan is paused at a yield point.
type Inj struct {
	At   int    `json:"at"` // the scan's n-th yield (0-based) over the chosen point family
	K    string `json:"k"`  // deliver | remove | purge
	Box  int    `json:"box"`
	N    int    `json:"n"`
	Here bool   `json:"here,omitempty"` // act on the mailbox the scan is looking at
	Pt   string `json:"pt,omitempty"`   // "" = every yield point counts; "scan" = only the scan's per-mailbox callback; "visit" = only the store turning to a mailbox
}

type Case struct {
	Backend string `json:"backend"`
	Period  int    `json:"period_s"`
	NBoxes  int    `json:"nboxes"`
	Msgs    []Msg  `json:"msgs"`
	Inject  []Inj  `json:"inject,omitempty"`
	MaxKB   int    `json:"maxkb,omitempty"` // mem only: store-wide size limit (never reached here), i.e. the size enforcer is running
	// NearWrap (file store) first advances the process-wide 4-digit id counter to just below 9999,
	// so that the ids of the messages to be scanned straddle its wrap to 0000 within one second.
	NearWrap bool `json:"near_wrap,omitempty"`
}

func age(class string, period time.Duration) time.Duration {
	switch class {
	case "ancient":
		return period*10 + 24*time.Hour
	case "expired":
		return period + 90*time.Second
	case "fresh":
		return period - 90*time.Second
	}
	return -time.Hour
}

var prop = hx.Prop[Case]{
	ID: pid, Name: "scan",
	Rule: "1-8 mailboxes (lock-bucket and directory mates) holding 0-12 messages each with ages {far beyond the period, period+90s, " +
		"period-90s, in the future}, periods 3 min..72 h, both back-ends, RetentionSleep 0; half of the cases inject deliveries, removals " +
		"and purges at the scan's yield points (between mailboxes, between the file store's directory levels), executed at that exact " +
		"moment, among them deliveries of expired mail into the mailbox the scan is turning to which (mem store, with and without a size limit) " +
		"stay between 'visible' and 'registered with the size enforcer' until the scan is over; oracle: DoScan returns (within 60 s) nil, every message older than the period is gone, every younger one (incl. those delivered during " +
		"the scan) remains with its content unless an injected operation removed it; non-trivial = some mailbox holds both expired and " +
		"unexpired messages and some mailbox is emptied completely",
	Quick: 250, Thorough: 1800,
	Gen: func(t *rapid.T) Case {
		c := Case{
			Backend: rapid.SampledFrom([]string{"mem", "file", "file"}).Draw(t, "backend"),
			Period:  rapid.SampledFrom([]int{180, 600, 3600, 86400, 259200}).Draw(t, "period"),
			NBoxes:  rapid.IntRange(1, 8).Draw(t, "nboxes"),
		}
		if c.Backend == "mem" {
			c.MaxKB = rapid.SampledFrom([]int{0, 65536}).Draw(t, "maxkb")
		}
		// each mailbox gets a profile so that wholly expired, wholly fresh and mixed mailboxes all occur
		for b := 0; b < c.NBoxes; b++ {
			prof := rapid.SampledFrom([]string{"expired", "expired", "fresh", "mixed", "mixed"}).Draw(t, "profile")
			n := rapid.IntRange(0, 5).Draw(t, "nmsgs")
			for i := 0; i < n; i++ {
				var age string
				switch prof {
				case "expired":
					age = rapid.SampledFrom([]string{"ancient", "expired"}).Draw(t, "age")
				case "fresh":
					age = rapid.SampledFrom([]string{"fresh", "future"}).Draw(t, "age")
				default:
					age = rapid.SampledFrom([]string{"ancient", "expired", "fresh", "future"}).Draw(t, "age")
				}
				c.Msgs = append(c.Msgs, Msg{Box: b, Age: age})
			}
		}
		if rapid.Bool().Draw(t, "concurrent") {
			c.Inject = rapid.SliceOfN(rapid.Custom(func(t *rapid.T) Inj {
				return Inj{At: rapid.IntRange(0, 9).Draw(t, "at"), Pt: rapid.SampledFrom([]string{"", "scan", "scan"}).Draw(t, "pt"), K: rapid.SampledFrom([]string{"deliver", "deliver-held", "remove", "purge", "purge", "purge-refill"}).Draw(t, "k"),
					Box: rapid.IntRange(0, c.NBoxes-1).Draw(t, "ibox"), N: rapid.IntRange(0, 12).Draw(t, "n"), Here: rapid.Bool().Draw(t, "here")}
			}), 1, 4).Draw(t, "inject")
			if rapid.Bool().Draw(t, "heldvisit") {
				// expired mail arriving in a mailbox at the moment the scan turns to it
				c.Inject = append(c.Inject, Inj{At: rapid.IntRange(0, c.NBoxes-1).Draw(t, "hat"), Pt: "visit", K: "deliver-held", Here: true})
			}
		}
		return c
	},
	Run: run,
}

// propWrap is the scan over mailboxes whose ids straddle the wrap of the file store's id counter
// (ids of one second are then not in ascending order).  About 10000 throw-away deliveries per
// case, hence few cases.
var propWrap = hx.Prop[Case]{
	ID: pid, Name: "wrap",
	Rule: "file store: the process-wide 4-digit id counter is first advanced to just below 9999 by throw-away deliveries, then 1-2 mailboxes " +
		"receive 12-20 messages of mixed ages within moments (their ids straddle the wrap to 0000 and are not in ascending order) and are " +
		"scanned; same oracle as 'scan'; non-trivial = some mailbox holds both expired and unexpired messages",
	Quick: 1, Thorough: 3,
	Gen: func(t *rapid.T) Case {
		c := Case{Backend: "file", Period: rapid.SampledFrom([]int{600, 3600, 86400}).Draw(t, "period"), NBoxes: rapid.IntRange(1, 2).Draw(t, "nboxes"), NearWrap: true}
		for i, n := 0, rapid.IntRange(12, 20).Draw(t, "nmsgs"); i < n; i++ {
			c.Msgs = append(c.Msgs, Msg{Box: rapid.IntRange(0, c.NBoxes-1).Draw(t, "box"), Age: rapid.SampledFrom([]string{"ancient", "expired", "expired", "fresh", "future"}).Draw(t, "age")})
		}
		return c
	},
	Run: func(c Case) *hx.Outcome {
		o := run(c)
		// with one or two mailboxes "some mailbox is emptied completely" is rare; mixed is the point here
		exp, fresh := false, false
		for _, m := range c.Msgs {
			if m.Age == "ancient" || m.Age == "expired" {
				exp = true
			} else {
				fresh = true
			}
		}
		o.NonTrivial = exp && fresh
		return o
	},
}

// boxNames: names that are alone in their first-level directory (r1..r4) alternate with lock-bucket
// and directory mates, so that even two or three mailboxes span directories that vanish with a
// single purge and directories that do not.
func boxNames(n int) []string {
	mates := append(append([]string{}, hx.Bucket3()...), hx.Bucket6()...)
	var pool []string
	for i, r := range []string{"r1", "r2", "r3", "r4"} {
		pool = append(pool, r)
		for j := 0; j < 2 && 2*i+j < len(mates); j++ {
			pool = append(pool, mates[2*i+j])
		}
	}
	for len(pool) < 9 {
		pool = append(pool, fmt.Sprintf("r%d", len(pool)+1))
	}
	return pool[:n]
}

func run(c Case) *hx.Outcome {
	o := &hx.Outcome{}
	host := extension.NewHost()
	var st storage.Store
	if c.Backend == "file" {
		dir := hx.TempDir()
		defer os.RemoveAll(dir)
		st = hx.NewFile(host, dir, 0)
	} else {
		st = hx.NewMem(host, 0, c.MaxKB)
	}
	if c.NearWrap && c.Backend == "file" {
		o.Class("ids straddle the wrap of the file store's id counter")
		for n := 0; n < 10050; n++ {
			id, err := st.AddMessage(hx.NewDelivery("wrapfill", nil, nil, time.Now(), "f", []byte("x")))
			if err != nil {
				o.Failf(pid+":harness", "wrap fill: %v", err)
				return o
			}
			if n%50 == 49 {
				_ = st.PurgeMessages("wrapfill")
			}
			if len(id) > 4 && id[len(id)-4:] >= "9994" {
				break
			}
		}
		_ = st.PurgeMessages("wrapfill")
	}
	names := boxNames(c.NBoxes)
	period := time.Duration(c.Period) * time.Second
	now := time.Now()
	type want struct {
		box, id string
		expired bool
		gone    bool // removed by an injected operation
		either  bool // expired mail that arrived while the scan was under way: it may or may not have been looked at
		body    []byte
	}
	var all []*want
	for i, m := range c.Msgs {
		body := []byte(fmt.Sprintf("Subject: m%d\r\n\r\nbody %d\r\n", i, i))
		id, err := st.AddMessage(hx.NewDelivery(names[m.Box], nil, nil, now.Add(-age(m.Age, period)), "m", body))
		if err != nil {
			o.Failf(pid+":harness", "AddMessage: %v", err)
			return o
		}
		all = append(all, &want{box: names[m.Box], id: id, expired: m.Age == "ancient" || m.Age == "expired", body: body})
	}
	// non-trivial rule
	mixed, emptied := false, false
	for _, b := range names {
		e, f := 0, 0
		for _, w := range all {
			if w.box == b {
				if w.expired {
					e++
				} else {
					f++
				}
			}
		}
		if e > 0 && f > 0 {
			mixed = true
		}
		if e > 0 && f == 0 {
			emptied = true
		}
	}
	o.NonTrivial = mixed && emptied
	// injected operations at the scan's yield points
	var yields, scanYields, visitYields atomic.Int32
	injected := 0
	// deliver-held: a delivery of expired mail made by another goroutine, which (mem store) stays
	// between "visible in its mailbox" and "registered with the size enforcer" until the scan is over
	var heldPending atomic.Int32
	heldVisible := make(chan string)
	heldRelease := make(chan struct{})
	var heldWG sync.WaitGroup
	if len(c.Inject) > 0 {
		byHash := map[string]string{}
		for _, nm := range names {
			byHash[stringutil.HashMailboxName(nm)] = nm
		}
		current := ""
		verifhook.SetYield(func(point string) {
			if strings.HasPrefix(point, "mem.add.visible ") {
				if heldPending.CompareAndSwap(1, 0) {
					heldVisible <- strings.TrimPrefix(point, "mem.add.visible ")
					<-heldRelease
				}
				return
			}
			if !strings.HasPrefix(point, "retention.scan.mailbox") && !strings.HasPrefix(point, "file.visit.") && !strings.HasPrefix(point, "mem.visit.") {
				return
			}
			// which mailbox the scan is looking at right now - or, between the file store's directory
			// levels, is about to reach (the first mailbox below the directory it is going to list)
			if f := strings.Fields(point); len(f) == 2 {
				switch f[0] {
				case "mem.visit.mailbox":
					current = f[1]
				case "file.visit.mailbox":
					current = byHash[f[1]]
				case "file.visit.level1", "file.visit.level2":
					prefix := f[1][strings.LastIndexByte(f[1], '/')+1:]
					for _, nm := range names {
						if strings.HasPrefix(stringutil.HashMailboxName(nm), prefix) {
							current = nm
							break
						}
					}
				}
			}
			n := int(yields.Add(1)) - 1
			ns := -1
			if strings.HasPrefix(point, "retention.scan.mailbox") {
				ns = int(scanYields.Add(1)) - 1
			}
			nv := -1
			if strings.HasPrefix(point, "mem.visit.mailbox ") || strings.HasPrefix(point, "file.visit.mailbox ") {
				nv = int(visitYields.Add(1)) - 1
			}
			for _, in := range c.Inject {
				if (in.Pt == "" && in.At != n) || (in.Pt == "scan" && in.At != ns) || (in.Pt == "visit" && in.At != nv) {
					continue
				}
				injected++
				box := names[in.Box]
				if in.Here && current != "" {
					box = current
				}
				switch in.K {
				case "deliver":
					body := []byte("Subject: during scan\r\n\r\nyoung\r\n")
					id, err := st.AddMessage(hx.NewDelivery(box, nil, nil, time.Now(), "young", body))
					if err == nil {
						all = append(all, &want{box: box, id: id, body: body})
					}
				case "deliver-held":
					body := []byte("Subject: old mail during scan\r\n\r\nexpired\r\n")
					d := hx.NewDelivery(box, nil, nil, time.Now().Add(-age("ancient", period)), "old", body)
					if c.Backend != "mem" {
						if id, err := st.AddMessage(d); err == nil {
							all = append(all, &want{box: box, id: id, either: true, body: body})
						}
						break
					}
					heldPending.Store(1)
					heldWG.Add(1)
					go func() {
						defer heldWG.Done()
						_, _ = st.AddMessage(d)
					}()
					select {
					case at := <-heldVisible:
						// visible before the scan lists this mailbox: it has to be removed like any expired message
						must := strings.HasPrefix(point, "mem.visit.mailbox ") && box == current
						all = append(all, &want{box: box, id: at[strings.LastIndexByte(at, '/')+1:], expired: must, either: !must, body: body})
					case <-time.After(10 * time.Second):
						heldPending.Store(0)
					}
				case "remove":
					ms, _ := st.GetMessages(box)
					if len(ms) > 0 {
						id := ms[in.N%len(ms)].ID()
						if st.RemoveMessage(box, id) == nil {
							for _, w := range all {
								if w.box == box && w.id == id {
									w.gone = true
								}
							}
						}
					}
				case "purge", "purge-refill":
					if st.PurgeMessages(box) == nil {
						for _, w := range all {
							if w.box == box {
								w.gone = true
							}
						}
					}
					if in.K == "purge-refill" {
						// new mail right after the purge: must survive whatever the scan still holds
						for k := 0; k <= in.N%4; k++ {
							body := []byte("Subject: after purge\r\n\r\nyoung\r\n")
							if id, err := st.AddMessage(hx.NewDelivery(box, nil, nil, time.Now(), "young", body)); err == nil {
								all = append(all, &want{box: box, id: id, body: body})
							}
						}
					}
				}
			}
		})
		defer verifhook.SetYield(nil)
	}
	rs := storage.NewRetentionScanner(config.Storage{RetentionPeriod: period, RetentionSleep: 0}, st)
	scanDone := make(chan error, 1)
	go func() { scanDone <- rs.DoScan(context.Background()) }()
	var err error
	select {
	case err = <-scanDone:
	case <-time.After(60 * time.Second):
		o.Failf(pid+":scan-stuck", "[%s maxkb=%d] DoScan has not returned after 60 s (injected operations: %+v)", c.Backend, c.MaxKB, c.Inject)
		close(heldRelease)
		return o
	}
	close(heldRelease)
	heldBack := make(chan struct{})
	go func() { heldWG.Wait(); close(heldBack) }()
	select {
	case <-heldBack:
	case <-time.After(10 * time.Second):
		o.Class("a delivery racing with the scan has not returned (C09's subject)")
	}
	verifhook.SetYield(nil)
	if err != nil {
		key := "scan-error"
		o.Failf(pid+":"+key, "[%s] DoScan returned %v (injected operations: %d of %+v)", c.Backend, err, injected, c.Inject)
	}
	// what remains
	for _, w := range all {
		sm, gerr := st.GetMessage(w.box, w.id)
		present := gerr == nil && sm != nil
		switch {
		case w.either:
		case w.gone || w.expired:
			if present && !w.gone {
				o.Failf(pid+":expired-kept", "[%s] message %s/%s is older than the period (%v) but survived the scan (scan error: %v)", c.Backend, w.box, w.id, period, err)
			}
			if present && w.gone {
				o.Failf(pid+":removed-message-present", "[%s] a message with id %s/%s is present although that message was removed during the scan (an id issued twice?)", c.Backend, w.box, w.id)
			}
		default:
			if !present {
				o.Failf(pid+":young-deleted", "[%s] message %s/%s is younger than the period (%v) but was deleted by the scan (%v)", c.Backend, w.box, w.id, period, gerr)
			} else if b, rerr := hx.ReadSource(sm); rerr != nil || string(b) != string(w.body) {
				o.Failf(pid+":content", "[%s] surviving message %s/%s content unreadable or changed: %v", c.Backend, w.box, w.id, rerr)
			}
		}
		if o.Failed() {
			break
		}
	}
	// epilogue: the scanner keeps running in a server. A second pass over what the first one
	// left (emptied mailboxes among it), then new mail for every mailbox: it must get an id no
	// earlier message of that mailbox had, and a third pass must leave it alone.
	if !o.Failed() {
		if err := rs.DoScan(context.Background()); err != nil {
			o.Failf(pid+":scan-error", "[%s] second DoScan returned %v", c.Backend, err)
		}
		issued := map[string]bool{}
		for _, w := range all {
			issued[w.box+"/"+w.id] = true
		}
		var later []*want
		for _, b := range names {
			body := []byte("Subject: after the scans\r\n\r\nyoung\r\n")
			id, err := st.AddMessage(hx.NewDelivery(b, nil, nil, time.Now(), "young", body))
			if err != nil {
				o.Failf(pid+":harness", "AddMessage after the scans: %v", err)
				break
			}
			if issued[b+"/"+id] {
				o.Failf(pid+":id-reissued", "[%s] after two scans a delivery to %q received id %s, which an earlier message of that mailbox already had", c.Backend, b, id)
			}
			later = append(later, &want{box: b, id: id, body: body})
		}
		if err := rs.DoScan(context.Background()); err != nil {
			o.Failf(pid+":scan-error", "[%s] third DoScan returned %v", c.Backend, err)
		}
		for _, w := range later {
			if sm, gerr := st.GetMessage(w.box, w.id); gerr != nil || sm == nil {
				o.Failf(pid+":young-deleted", "[%s] message %s/%s delivered after the scans is younger than the period but a later scan deleted it (%v)", c.Backend, w.box, w.id, gerr)
				break
			}
		}
	}
	if injected > 0 {
		o.Class("operations injected during the scan")
	}
	o.Class("backend " + c.Backend)
	return o
}

// ---- lifecycle: period 0, cancellation ----

type LCase struct {
	Backend string `json:"backend"`
	Mode    string `json:"mode"`     // zero | cancel-wait | cancel-scan
	DelayMs int    `json:"delay_ms"` // when to cancel
}

var propLife = hx.Prop[LCase]{
	ID: pid, Name: "lifecycle",
	Rule: "Start with period 0 (must return at once, Join returns, nothing deleted although the store holds ancient mail); a period of 100-900 ms " +
		"(not disabled: Start keeps running until shutdown; a scan deletes three-day-old mail and keeps mail dated ahead); Start with a " +
		"positive period cancelled after 0-40 ms of its initial one-minute wait; DoScan over 3 mailboxes with a 30 s inter-mailbox sleep " +
		"cancelled after 0-40 ms: Start/DoScan/Join must return within 2 s (one-sided bound, the configured sleeps are 30-60 s); " +
		"non-trivial = a cancellation case",
	Quick: 30, Thorough: 120,
	Gen: func(t *rapid.T) LCase {
		return LCase{Backend: rapid.SampledFrom([]string{"mem", "file"}).Draw(t, "backend"),
			Mode: rapid.SampledFrom([]string{"zero", "cancel-wait", "cancel-scan", "cancel-scan", "cancel-mid", "cancel-mid", "subsecond"}).Draw(t, "mode"), DelayMs: rapid.IntRange(0, 40).Draw(t, "delay")}
	},
	Run: func(c LCase) *hx.Outcome {
		o := &hx.Outcome{}
		host := extension.NewHost()
		var st storage.Store
		if c.Backend == "file" {
			dir := hx.TempDir()
			defer os.RemoveAll(dir)
			st = hx.NewFile(host, dir, 0)
		} else {
			st = hx.NewMem(host, 0, 0)
		}
		for i := 0; i < 3; i++ {
			_, _ = st.AddMessage(hx.NewDelivery(fmt.Sprintf("b%d", i), nil, nil, time.Now().Add(-1000*time.Hour), "old", []byte("x")))
		}
		within := func(what string, d time.Duration, f func()) bool {
			done := make(chan struct{})
			go func() { f(); close(done) }()
			select {
			case <-done:
				return true
			case <-time.After(d):
				o.Failf(pid+":shutdown-not-prompt", "%s did not return within %v", what, d)
				return false
			}
		}
		ctx, cancel := context.WithCancel(context.Background())
		defer cancel()
		switch c.Mode {
		case "zero":
			rs := storage.NewRetentionScanner(config.Storage{RetentionPeriod: 0, RetentionSleep: 0}, st)
			if !within("Start with period 0", 2*time.Second, func() { rs.Start(ctx) }) {
				return o
			}
			within("Join after Start with period 0", 2*time.Second, rs.Join)
			n := 0
			_ = st.VisitMailboxes(func(ms []storage.Message) bool { n += len(ms); return true })
			if n != 3 {
				o.Failf(pid+":period-zero-deletes", "with period 0 the store went from 3 to %d messages", n)
			}
		case "cancel-wait":
			o.NonTrivial = true
			rs := storage.NewRetentionScanner(config.Storage{RetentionPeriod: time.Hour, RetentionSleep: 0}, st)
			started := make(chan struct{})
			done := make(chan struct{})
			go func() { close(started); rs.Start(ctx); close(done) }()
			<-started
			time.Sleep(time.Duration(c.DelayMs) * time.Millisecond)
			cancel()
			if !within("Start after cancel during its initial wait", 2*time.Second, func() { <-done }) {
				return o
			}
			within("Join after cancel", 2*time.Second, rs.Join)
		case "subsecond":
			// a period of less than a second is a period: the scanner is not disabled (Start keeps
			// running until shutdown), and a scan deletes what is days old and keeps what lies in the future
			o.NonTrivial = true
			period := time.Duration(100+c.DelayMs*20) * time.Millisecond // 100..900 ms
			oldID, _ := st.AddMessage(hx.NewDelivery("sub", nil, nil, time.Now().Add(-72*time.Hour), "old", []byte("x")))
			newID, _ := st.AddMessage(hx.NewDelivery("sub", nil, nil, time.Now().Add(time.Hour), "new", []byte("x")))
			rs := storage.NewRetentionScanner(config.Storage{RetentionPeriod: period, RetentionSleep: 0}, st)
			if err := rs.DoScan(ctx); err != nil {
				o.Failf(pid+":scan-error", "[%s] DoScan with period %v: %v", c.Backend, period, err)
			}
			if m, err := st.GetMessage("sub", oldID); err == nil && m != nil {
				o.Failf(pid+":expired-kept", "[%s] period %v: a message three days old survived the scan", c.Backend, period)
			}
			if m, err := st.GetMessage("sub", newID); err != nil || m == nil {
				o.Failf(pid+":young-deleted", "[%s] period %v: a message dated an hour ahead was deleted by the scan (%v)", c.Backend, period, err)
			}
			done := make(chan struct{})
			go func() { rs.Start(ctx); close(done) }()
			select {
			case <-done:
				o.Failf(pid+":scanner-disabled", "[%s] Start returned at once with a retention period of %v: the scanner treats it as disabled", c.Backend, period)
			case <-time.After(300 * time.Millisecond):
			}
			cancel()
			within("Start after cancel (period "+period.String()+")", 2*time.Second, func() { <-done })
		case "cancel-scan":
			o.NonTrivial = true
			rs := storage.NewRetentionScanner(config.Storage{RetentionPeriod: time.Hour, RetentionSleep: 30 * time.Second}, st)
			done := make(chan struct{})
			go func() { _ = rs.DoScan(ctx); close(done) }()
			time.Sleep(time.Duration(c.DelayMs) * time.Millisecond)
			cancel()
			within("DoScan after cancel (30 s inter-mailbox sleep configured)", 2*time.Second, func() { <-done })
		case "cancel-mid":
			// shutdown arrives while the scan is inside its first mailbox (default pause): it may
			// finish that mailbox, but must not go on to others - in particular not to the mailboxes
			// stored next to it (same first hash digits)
			o.NonTrivial = true
			names := append(append([]string{}, hx.Siblings()...), hx.Bucket6()...)
			for k, n := range names {
				// some of the mailboxes hold nothing to purge (young mail only): the scan has to notice
				// the shutdown there as well
				age := -1000 * time.Hour
				if (k+c.DelayMs)%2 == 0 {
					age = -time.Minute
				}
				_, _ = st.AddMessage(hx.NewDelivery(n, nil, nil, time.Now().Add(age), "m", []byte("x")))
			}
			for k := 0; k < 4; k++ {
				_, _ = st.AddMessage(hx.NewDelivery(fmt.Sprintf("young%d", k), nil, nil, time.Now().Add(-time.Minute), "young", []byte("x")))
			}
			names = append(names, "b0", "b1", "b2")
			// the moment: the walk arrives at the first of the sibling mailboxes
			sib := map[string]bool{}
			for _, n := range hx.Siblings() {
				sib[n] = true
				sib[stringutil.HashMailboxName(n)] = true
			}
			var once sync.Once
			var begun, begunAtCancel atomic.Int32 // mailboxes the scan has begun to work on
			verifhook.SetYield(func(point string) {
				if strings.HasPrefix(point, "retention.scan.mailbox") {
					begun.Add(1)
				}
				if f := strings.Fields(point); len(f) == 2 && (f[0] == "file.visit.mailbox" || f[0] == "mem.visit.mailbox") && sib[f[1]] {
					once.Do(func() { begunAtCancel.Store(begun.Load()); cancel() })
				}
			})
			// (the default pause of 50 ms: with no pause at all the scanner's select between "cancelled"
			// and "pause over" is a coin toss per mailbox, which is prompt enough but not exact)
			rs := storage.NewRetentionScanner(config.Storage{RetentionPeriod: time.Hour, RetentionSleep: 50 * time.Millisecond}, st)
			ok := within("DoScan cancelled inside its first mailbox", 2*time.Second, func() { _ = rs.DoScan(ctx) })
			verifhook.SetYield(nil)
			if !ok {
				return o
			}
			var emptied []string
			for _, n := range names {
				if ms, _ := st.GetMessages(n); len(ms) == 0 {
					emptied = append(emptied, n)
				}
			}
			if b, a := int(begun.Load()), int(begunAtCancel.Load()); b > a+1 {
				o.Failf(pid+":scan-goes-on-after-shutdown", "[%s] shutdown was requested when the scan had worked on %d mailboxes and was arriving at the next; it may finish that one, yet it went on to work on %d more", c.Backend, a, b-a-1)
			} else if allowed := int(begunAtCancel.Load()) + 1; len(emptied) > allowed {
				o.Failf(pid+":scan-goes-on-after-shutdown", "[%s] shutdown was requested when the scan had worked on %d mailboxes and was arriving at the next; it may finish that one, yet %d mailboxes were emptied: %v", c.Backend, allowed-1, len(emptied), emptied)
			}
		}
		return o
	},
}

// ---- storm: mail keeps arriving, unpaced, while a scan runs ----

type StCase struct {
	Backend string `json:"backend"`
	NBox    int    `json:"nbox"`
	Old     int    `json:"old"`     // expired messages per mailbox before the scan
	Senders int    `json:"senders"` // concurrent deliverers
	Each    int    `json:"each"`    // deliveries per deliverer
}

var propStorm = hx.Prop[StCase]{
	ID: pid, Name: "storm",
	Rule: "1-3 mailboxes of one lock bucket hold 3-40 expired messages each; a scan (period 1 h, no pause) runs while 1-4 goroutines deliver 5-40 young " +
		"messages each into the same mailboxes at full speed (no yield points: whatever interleaving the scheduler gives, under the race detector); " +
		"afterwards every expired message is gone, every young one is there with its content, and the scan reported no error; non-trivial = at least " +
		"two deliverers and ten expired messages per mailbox; distinct = distinct case JSON",
	Quick: 40, Thorough: 400,
	Gen: func(t *rapid.T) StCase {
		return StCase{Backend: rapid.SampledFrom([]string{"file", "file", "mem"}).Draw(t, "backend"), NBox: rapid.IntRange(1, 3).Draw(t, "nbox"),
			Old: rapid.SampledFrom([]int{3, 10, 40}).Draw(t, "old"), Senders: rapid.IntRange(1, 4).Draw(t, "senders"), Each: rapid.SampledFrom([]int{5, 15, 40}).Draw(t, "each")}
	},
	Run: func(c StCase) *hx.Outcome {
		o := &hx.Outcome{}
		host := extension.NewHost()
		var st storage.Store
		if c.Backend == "file" {
			dir := hx.TempDir()
			defer os.RemoveAll(dir)
			st = hx.NewFile(host, dir, 0)
		} else {
			st = hx.NewMem(host, 0, 0)
		}
		names := boxNames(c.NBox)
		type rec struct{ box, id, body string }
		var old []rec
		for _, b := range names {
			for i := 0; i < c.Old; i++ {
				id, err := st.AddMessage(hx.NewDelivery(b, nil, nil, time.Now().Add(-48*time.Hour), "old", []byte("old")))
				if err != nil {
					o.Failf(pid+":harness", "AddMessage: %v", err)
					return o
				}
				old = append(old, rec{b, id, "old"})
			}
		}
		var mu sync.Mutex
		var young []rec
		var errs []string
		var wg sync.WaitGroup
		start := make(chan struct{})
		for s := 0; s < c.Senders; s++ {
			wg.Add(1)
			go func(s int) {
				defer wg.Done()
				<-start
				for k := 0; k < c.Each; k++ {
					b := names[(s+k)%len(names)]
					body := fmt.Sprintf("young %d.%d", s, k)
					id, err := st.AddMessage(hx.NewDelivery(b, nil, nil, time.Now(), "young", []byte(body)))
					mu.Lock()
					if err != nil {
						errs = append(errs, fmt.Sprintf("delivery %d.%d to %s: %v", s, k, b, err))
					} else {
						young = append(young, rec{b, id, body})
					}
					mu.Unlock()
				}
			}(s)
		}
		rs := storage.NewRetentionScanner(config.Storage{RetentionPeriod: time.Hour, RetentionSleep: 0}, st)
		scanErr := make(chan error, 1)
		go func() { <-start; scanErr <- rs.DoScan(context.Background()) }()
		close(start)
		wg.Wait()
		select {
		case err := <-scanErr:
			if err != nil {
				o.Failf(pid+":scan-error", "[%s] DoScan returned %v while mail was arriving", c.Backend, err)
			}
		case <-time.After(60 * time.Second):
			o.Failf(pid+":scan-hangs", "[%s] DoScan did not return within 60 s", c.Backend)
			return o
		}
		for _, e := range errs {
			o.Failf(pid+":delivery-failed", "[%s] %s", c.Backend, e)
		}
		for _, y := range young {
			sm, err := st.GetMessage(y.box, y.id)
			if err != nil || sm == nil {
				o.Failf(pid+":young-deleted", "[%s, %d expired per mailbox, %d deliverers] message %s/%s, delivered during the scan, is gone (%v)", c.Backend, c.Old, c.Senders, y.box, y.id, err)
				break
			}
			if b, rerr := hx.ReadSource(sm); rerr != nil || string(b) != y.body {
				o.Failf(pid+":content", "[%s] message %s/%s delivered during the scan reads %q (%v), want %q", c.Backend, y.box, y.id, b, rerr, y.body)
				break
			}
		}
		for _, x := range old {
			if sm, err := st.GetMessage(x.box, x.id); err == nil && sm != nil {
				o.Failf(pid+":expired-kept", "[%s] expired message %s/%s survived a scan that started after it was stored", c.Backend, x.box, x.id)
				break
			}
		}
		o.NonTrivial = c.Senders >= 2 && c.Old >= 10
		o.Class("backend " + c.Backend)
		return o
	},
}

func TestProp(t *testing.T) {
	t.Run("storm", propStorm.Check)
	t.Run("scan", prop.Check)
	t.Run("lifecycle", propLife.Check)
	t.Run("wrap", propWrap.Check)
}
func TestRegress(t *testing.T) {
	prop.Regress(t)
	propLife.Regress(t)
	propStorm.Regress(t)
	propWrap.Regress(t)
}
func TestReplay(t *testing.T) {
	if *hx.ReplayPath == "" {
		t.Skip("no -replay")
	}
	if !prop.Replay(t, *hx.ReplayPath) && !propLife.Replay(t, *hx.ReplayPath) && !propStorm.Replay(t, *hx.ReplayPath) && !propWrap.Replay(t, *hx.ReplayPath) {
		t.Fatalf("no prop matches %s", *hx.ReplayPath)
	}
}
func TestMain(m *testing.M) { hx.Main(m) }
