package c04

import "github.com/inbucket/inbucket/v3/pkg/storage"

type hxMsg = storage.Message
