package c04

import (
	"testing"

	"verif/harness/hx"
)

// FuzzNaming drives the naming relations with coverage-guided raw strings.
func FuzzNaming(f *testing.F) {
	for _, s := range []string{"james@inbucket.org", "james+spam@inbucket.org", "u@Example.COM", "+foo@d.test", "a.+x@d.test",
		"\"quoted\"@a.test", "esc\\@ped@a.test", "@r1,@r2:u@a.test", "u@[IPv6:2001:DB8::1]", "u@[1.2.3.4]", "a.b.c+d+e@x-y.test."} {
		f.Add(uint8(0), s, uint64(0xaaaa))
		f.Add(uint8(1), s, uint64(0x5555))
		f.Add(uint8(2), s, uint64(0xffff))
	}
	f.Fuzz(func(t *testing.T, mode uint8, addr string, mask uint64) {
		naming := []string{"local", "full", "domain"}[int(mode)%3]
		o := &hx.Outcome{}
		before := ""
		if mask&(1<<63) != 0 {
			before = "first..last@example.com" // a refused parse ahead of every judged call
		}
		checkNaming(o, naming, addr, mask, "x", before)
		if o.Failed() {
			t.Fatalf("%s", o.Viols[0].Error())
		}
	})
}
