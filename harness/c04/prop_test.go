package c04

import (
	"encoding/json"
	"fmt"
	"io"
	"net/http"
	"net/url"
	"sort"
	"strings"
	"testing"

	"github.com/inbucket/inbucket/v3/pkg/config"
	"github.com/inbucket/inbucket/v3/pkg/policy"
	"pgregory.net/rapid"
	"verif/harness/hx"
)

const pid = "C04"

// ---- address grammar ----

const atomChars = "abcdefghijklmnopqrstuvwxyzABCDEFGHIJKLMNOPQRSTUVWXYZ0123456789!#$%&'*-/=?^_`{|}~"

var atomGen = rapid.Custom(func(t *rapid.T) string {
	n := rapid.IntRange(1, 4).Draw(t, "alen")
	b := make([]byte, n)
	for i := range b {
		// letters and digits are favoured, specials appear regularly
		if rapid.IntRange(0, 3).Draw(t, "special") == 0 {
			b[i] = atomChars[rapid.IntRange(62, len(atomChars)-1).Draw(t, "sc")]
		} else {
			b[i] = atomChars[rapid.IntRange(0, 61).Draw(t, "lc")]
		}
	}
	return string(b)
})

// localGen draws a local part: dot-atoms with '+' placed anywhere (start, after a dot, end,
// repeated), quoted strings, quoted pairs.
var localGen = rapid.Custom(func(t *rapid.T) string {
	switch rapid.IntRange(0, 9).Draw(t, "lkind") {
	case 2:
		// a quoted pair at the very start or end
		if rapid.Bool().Draw(t, "qpstart") {
			return `\` + rapid.SampledFrom([]string{".", "+", "A", "@"}).Draw(t, "qp0") + atomGen.Draw(t, "b")
		}
		return atomGen.Draw(t, "a") + `\` + rapid.SampledFrom([]string{".", "+", "A"}).Draw(t, "qp1")
	case 0:
		return `"` + rapid.SampledFrom([]string{"quoted", "a@b", "sp ace", "Q.x", "a+b", ".x", "a..b", "x.", "+", "a.+b"}).Draw(t, "q") + `"`
	case 1:
		return atomGen.Draw(t, "a") + `\` + rapid.SampledFrom([]string{"@", " ", `"`, "A", "+", ".", `\`}).Draw(t, "qp") + atomGen.Draw(t, "b")
	}
	n := rapid.IntRange(1, 3).Draw(t, "natoms")
	var parts []string
	for i := 0; i < n; i++ {
		a := atomGen.Draw(t, "atom")
		switch rapid.IntRange(0, 7).Draw(t, "plus") {
		case 0:
			a = "+" + a
		case 1:
			a = a + "+" + atomGen.Draw(t, "ext")
		case 2:
			a = "+"
		}
		parts = append(parts, a)
	}
	return strings.Join(parts, ".")
})

var domainGen = rapid.Custom(func(t *rapid.T) string {
	switch rapid.IntRange(0, 9).Draw(t, "dkind") {
	case 0:
		return rapid.SampledFrom([]string{"[1.2.3.4]", "[IPv6:::1]", "[IPv6:2001:DB8::1]", "[ipv6:::1]", "[IPV6:::1]", "[::1]"}).Draw(t, "lit")
	case 1:
		return rapid.SampledFrom([]string{"a_b.test", "x--y.test", "1.2", "UPPER.TEST", "host", "a.b.c.d.e.test.", longDomain(129), longDomain(200), longDomain(255), longDomain(128)}).Draw(t, "odd")
	}
	return hx.ReCase(rapid.SampledFrom(hx.Domains).Draw(t, "dom"), rapid.Uint64().Draw(t, "dmask")&rapid.Uint64().Draw(t, "dmask2"))
})

// longDomain builds a valid domain of exactly n bytes from labels of at most 63.
func longDomain(n int) string {
	var b strings.Builder
	for b.Len() < n-5 {
		l := n - 5 - b.Len()
		if l > 60 {
			l = 60
		}
		b.WriteString(strings.Repeat("l", l))
		if b.Len() < n-5 {
			b.WriteByte('.')
		}
	}
	for b.Len() < n-5 {
		b.WriteByte('x')
	}
	s := strings.TrimSuffix(b.String(), ".")
	s += ".test"
	for len(s) < n {
		s = "p" + s
	}
	return s[:n]
}

var addrGen = rapid.Custom(func(t *rapid.T) string {
	a := localGen.Draw(t, "local") + "@" + domainGen.Draw(t, "domain")
	if rapid.IntRange(0, 9).Draw(t, "route") == 0 {
		a = "@relay.test,@r2.test:" + a
	}
	return a
})

// NCase is one address in one naming mode with a re-casing mask and an extension.
type NCase struct {
	Naming string `json:"naming"`
	Addr   string `json:"addr"`
	Mask   uint64 `json:"mask"`
	Ext    string `json:"ext"`
	// Before is parsed (and usually refused) right before the judged address: naming must not
	// depend on what the parser saw earlier.
	Before string `json:"before,omitempty"`
}

// refused and odd spellings a client may send before a good one
var beforePool = []string{"bob..smith@example.com", "a b@x.test", `"unterminated@x.test`, "trailing.@x.test", ".lead@x.test", "x@", "a@@b.test",
	"<>", `a"b@x.test`, "abc.def..ghi@a.test", "tag+.@a.test", `q\@`, "", "toolong" + strings.Repeat("x", 70) + "@a.test", "ok@a.test", "UP+ext@A.TEST"}

func namingOf(s string) config.Root {
	switch s {
	case "full":
		return config.Root{MailboxNaming: config.FullNaming}
	case "domain":
		return config.Root{MailboxNaming: config.DomainNaming}
	}
	return config.Root{MailboxNaming: config.LocalNaming}
}

// checkNaming applies relations (i)-(iv) to one accepted address; name is the server's
// naming function, accepts its RCPT-time parser.
func checkNaming(o *hx.Outcome, naming, addr string, mask uint64, ext string, before string) (accepted bool) {
	root := namingOf(naming)
	ap := &policy.Addressing{Config: &root}
	// pre parses the "before" address (usually refused) ahead of each judged call
	pre := func() {
		if before != "" {
			_, _ = ap.ExtractMailbox(before)
		}
	}
	pre()
	rcpt, err := ap.NewRecipient(addr)
	if err != nil {
		return false
	}
	name := rcpt.Mailbox
	tag := fmt.Sprintf("[%s] <%s>", naming, addr)
	if name == "" {
		o.Failf(pid+":empty-name", "%s: RCPT accepts the address but its mailbox name is empty", tag)
		return true
	}
	pre()
	n2, err := ap.ExtractMailbox(addr)
	if err != nil || n2 != name {
		o.Failf(pid+":read-name-differs", "%s: delivery name %q but read interfaces compute %q (err %v)", tag, name, n2, err)
	}
	// (ii) fixed point: asking for the mailbox by its own name reaches it
	pre()
	if n2, err := ap.ExtractMailbox(name); err != nil || n2 != name {
		o.Failf(pid+":not-fixed-point", "%s: name %q maps to %q (err %v) when looked up by name", tag, name, n2, err)
	}
	// (iii) letter case
	re := hx.ReCase(addr, mask)
	pre()
	if r2, err := ap.NewRecipient(re); err == nil && r2.Mailbox != name {
		o.Failf(pid+":case-dependent", "%s -> %q but re-cased <%s> -> %q", tag, name, re, r2.Mailbox)
	}
	// (iv) +extension: inserted before the last unquoted '@' of an address without '+'
	if i := strings.LastIndexByte(addr, '@'); i > 0 && !strings.Contains(addr[:i], "+") && !strings.HasSuffix(addr[:i], `"`) && !strings.HasSuffix(addr[:i], `\`) {
		withExt := addr[:i] + "+" + ext + addr[i:]
		if r2, err := ap.NewRecipient(withExt); err == nil && r2.Mailbox != name {
			o.Failf(pid+":ext-dependent", "%s -> %q but <%s> -> %q", tag, name, withExt, r2.Mailbox)
		}
	}
	// a plain address containing '+': dropping the extension must not change the name
	if l, d := hx.SplitAddr(addr); !strings.ContainsAny(l, `"\:`) && strings.Contains(l, "+") {
		base := l[:strings.IndexByte(l, '+')] + "@" + d
		if r2, err := ap.NewRecipient(base); err == nil && r2.Mailbox != name {
			o.Failf(pid+":ext-dependent", "%s -> %q but without the extension <%s> -> %q", tag, name, base, r2.Mailbox)
		}
	}
	if ref, ok := hx.RefMailboxPlain(naming, addr); ok && !strings.ContainsAny(addr, "\"\\:") && ref != name {
		o.Failf(pid+":doc-naming", "%s -> %q, the documented rule (lower-case, no +ext) gives %q", tag, name, ref)
	}
	return true
}

func nontrivialAddr(addr string) bool {
	l, d := hx.SplitAddr(addr)
	return d != strings.ToLower(d) || strings.HasPrefix(l, "+") || strings.Contains(l, ".+") ||
		strings.ContainsAny(l, "\"\\") || strings.HasPrefix(addr, "@") || strings.HasPrefix(d, "[")
}

var propNaming = hx.Prop[NCase]{
	ID: pid, Name: "naming",
	Rule: "addresses from a grammar (dot-atoms over all unquoted specials, '+' at any position, quoted strings, quoted pairs, source routes, " +
		"vocabulary/odd/IP-literal domains, random letter case) in each naming mode; cases RCPT's parser refuses are counted but not judged; " +
		"relations: name non-empty, name is a fixed point of the naming function, name independent of re-casing and of a +extension, " +
		"equal to the documented rule for plain addresses; non-trivial = accepted and has an upper-case domain letter, a '+' at position 0 " +
		"or after '.', a quoted/escaped part, a source route or an IP literal; distinct = distinct case JSON",
	Quick: 6000, Thorough: 60000,
	Gen: func(t *rapid.T) NCase {
		return NCase{
			Naming: rapid.SampledFrom([]string{"local", "full", "domain"}).Draw(t, "naming"),
			Addr:   addrGen.Draw(t, "addr"),
			Mask:   rapid.Uint64().Draw(t, "mask"),
			Ext:    rapid.SampledFrom([]string{"x", "Tag", "a.b", "", "1+2"}).Draw(t, "ext"),
			Before: rapid.SampledFrom(append([]string{"", "", ""}, beforePool...)).Draw(t, "before"),
		}
	},
	Run: func(c NCase) *hx.Outcome {
		o := &hx.Outcome{}
		if c.Before != "" {
			root := namingOf(c.Naming)
			ap := &policy.Addressing{Config: &root}
			_, _ = ap.NewRecipient(c.Before)
			_, _ = ap.ExtractMailbox(c.Before)
			_, _ = ap.ParseOrigin(c.Before)
			o.Class("another address parsed first")
		}
		if checkNaming(o, c.Naming, c.Addr, c.Mask, c.Ext, c.Before) {
			o.Class("accepted by RCPT")
			o.NonTrivial = nontrivialAddr(c.Addr)
		} else {
			o.Class("refused by RCPT")
		}
		o.Class("naming " + c.Naming)
		return o
	},
}

// ---- end to end ----

// ECase delivers to one address and reads it back under several spellings.
type ECase struct {
	Naming  string `json:"naming"`
	Backend string `json:"backend"`
	Addr    string `json:"addr"`
	Mask    uint64 `json:"mask"`
	// Assembled: the world is what server.FullAssembly wires together (see hx.Cfg.Assembled)
	Assembled bool `json:"assembled,omitempty"`
}

type hdr struct {
	Mailbox string `json:"mailbox"`
	ID      string `json:"id"`
}

func listVia(base, prefix, name string) (int, []hdr, error) {
	resp, err := http.Get(base + prefix + "/api/v1/mailbox/" + url.PathEscape(name))
	if err != nil {
		return 0, nil, err
	}
	defer resp.Body.Close()
	b, _ := io.ReadAll(resp.Body)
	if resp.StatusCode != 200 {
		return resp.StatusCode, nil, nil
	}
	var l []hdr
	if err := json.Unmarshal(b, &l); err != nil {
		return 200, nil, err
	}
	return 200, l, nil
}

var propE2E = hx.Prop[ECase]{
	ID: pid, Name: "e2e",
	Rule: "an accepted address from the same grammar receives one message by " +
		"SMTP; REST list and web-UI source must find it under the original address, the mailbox name, a re-cased and a +ext spelling, with " +
		"the JSON mailbox field equal to the delivery mailbox, and a POP3 login under each spelling must show it; non-trivial as for naming",
	Quick: 150, Thorough: 1200,
	Gen: func(t *rapid.T) ECase {
		return ECase{
			Naming:    rapid.SampledFrom([]string{"local", "full", "domain"}).Draw(t, "naming"),
			Backend:   rapid.SampledFrom([]string{"mem", "file"}).Draw(t, "backend"),
			Addr:      addrGen.Draw(t, "addr"),
			Mask:      rapid.Uint64().Draw(t, "mask"),
			Assembled: rapid.IntRange(0, 2).Draw(t, "assembled") == 0,
		}
	},
	Run: runE2E,
}

func runE2E(c ECase) *hx.Outcome {
	o := &hx.Outcome{}
	cfg := hx.DefaultCfg()
	cfg.Naming, cfg.Backend, cfg.Assembled = c.Naming, c.Backend, c.Assembled
	if c.Assembled {
		o.Class("world wired by server.FullAssembly")
	}
	w, err := hx.NewWorld(cfg)
	if err != nil {
		o.Failf(pid+":harness", "world: %v", err)
		return o
	}
	defer w.Close()
	if _, err := w.Policy.NewRecipient(c.Addr); err != nil {
		o.Class("refused by RCPT")
		return o
	}
	o.Class("accepted by RCPT")
	o.NonTrivial = nontrivialAddr(c.Addr)
	cl, _, err := w.DialSMTP()
	if err != nil {
		o.Failf(pid+":harness", "dial: %v", err)
		return o
	}
	steps := []string{"HELO c.test", "MAIL FROM:<s@a.test>", "RCPT TO:<" + c.Addr + ">", "DATA"}
	for _, s := range steps {
		r, err := cl.Cmd(s)
		if err != nil || (r.Class() != 2 && r.Code != 354) {
			// RCPT strips "<> " around the address; an address ending in such a byte is a different address
			o.Failf(pid+":delivery-refused", "%q -> %v err %v", s, r, err)
			_ = cl.Close()
			return o
		}
	}
	r, err := cl.Data([]byte("Subject: c04\r\n\r\nbody\r\n"))
	_ = cl.Close()
	if err != nil || r.Code != 250 {
		o.Failf(pid+":delivery-refused", "end of DATA -> %v err %v", r, err)
		return o
	}
	// where did it go?
	var boxes []string
	for name, n := range visit(w) {
		if n > 0 {
			boxes = append(boxes, name)
		}
	}
	if len(boxes) != 1 {
		o.Failf(pid+":misdelivered", "after one delivery to <%s> the non-empty mailboxes are %q", c.Addr, boxes)
		return o
	}
	box := boxes[0]
	if box == "" {
		o.Failf(pid+":empty-name", "<%s> was delivered to the mailbox with the empty name", c.Addr)
		return o
	}
	spellings := map[string]string{"address": c.Addr, "name": box}
	if re := hx.ReCase(c.Addr, c.Mask); re != c.Addr {
		if _, err := w.Policy.NewRecipient(re); err == nil {
			spellings["recased"] = re
		}
	}
	if i := strings.LastIndexByte(c.Addr, '@'); i > 0 && !strings.Contains(c.Addr[:i], "+") && !strings.HasSuffix(c.Addr[:i], `"`) && !strings.HasSuffix(c.Addr[:i], `\`) {
		we := c.Addr[:i] + "+zz" + c.Addr[i:]
		if _, err := w.Policy.NewRecipient(we); err == nil {
			spellings["with-ext"] = we
		}
	}
	// the mailbox's own name in another letter case: a name, too, is asked for case-insensitively
	if re := hx.ReCase(box, c.Mask|1); re != box {
		if n, err := w.MailboxFor(re); err == nil && strings.EqualFold(n, box) {
			spellings["name-recased"] = re
		}
	}
	kinds := make([]string, 0, len(spellings))
	for kind := range spellings {
		kinds = append(kinds, kind)
	}
	sort.Strings(kinds)
	for _, kind := range kinds {
		sp := spellings[kind]
		code, l, err := listVia(w.HTTP.URL, "", sp)
		if err != nil {
			o.Failf(pid+":rest-error", "REST list as %s %q: %v", kind, sp, err)
			continue
		}
		if code != 200 || len(l) != 1 {
			o.Failf(pid+":not-reachable-rest", "[%s] mail to <%s> is in mailbox %q, but REST list asked by %s %q answers %d with %d messages", c.Naming, c.Addr, box, kind, sp, code, len(l))
			continue
		}
		if l[0].Mailbox != box {
			o.Failf(pid+":rest-mailbox-field", "REST list by %s %q reports mailbox %q, delivery used %q", kind, sp, l[0].Mailbox, box)
		}
		// every route that reads a message takes the name through the same function
		for _, route := range []string{"/serve/mailbox/%s/%s/source", "/serve/mailbox/%s/%s", "/serve/mailbox/%s/%s/html", "/api/v1/mailbox/%s/%s", "/api/v1/mailbox/%s/%s/source"} {
			path := fmt.Sprintf(route, url.PathEscape(sp), l[0].ID)
			resp, err := http.Get(w.HTTP.URL + path)
			if err != nil || resp.StatusCode != 200 {
				key := ":not-reachable-webui"
				if strings.HasPrefix(route, "/api/") {
					key = ":not-reachable-rest"
				}
				o.Failf(pid+key, "[%s] mail to <%s> is in mailbox %q, but GET %s (name spelled as %s %q) answers %v (err %v)", c.Naming, c.Addr, box, path, kind, sp, resp, err)
			}
			if resp != nil {
				resp.Body.Close()
			}
		}
		// POP3 login under this spelling (a space cannot be typed in USER)
		if strings.Contains(sp, " ") {
			continue
		}
		pc, _, err := w.DialPOP3()
		if err != nil {
			o.Failf(pid+":harness", "pop3 dial: %v", err)
			continue
		}
		pr, err := pc.Login(sp)
		var st hx.PReply
		if err == nil && pr.OK {
			st, err = pc.Cmd("STAT", false)
		}
		_, _ = pc.Cmd("QUIT", false)
		_ = pc.Close()
		if err != nil || !strings.HasPrefix(st.Status, "+OK 1 ") {
			key := pid + ":pop3-login-verbatim"
			if sp == box {
				key = pid + ":not-reachable-pop3"
			}
			o.Failf(key, "[%s] mail to <%s> is in mailbox %q, but a POP3 login as %s %q shows %q (err %v): POP3 uses the login name verbatim instead of the naming function", c.Naming, c.Addr, box, kind, sp, st.Status, err)
		}
	}
	return o
}

func visit(w *hx.World) map[string]int {
	m := map[string]int{}
	_ = w.Store.VisitMailboxes(func(ms []hxMsg) bool {
		if len(ms) > 0 {
			m[ms[0].Mailbox()] += len(ms)
		}
		return true
	})
	return m
}

func TestProp(t *testing.T) {
	t.Run("naming", propNaming.Check)
	t.Run("e2e", propE2E.Check)
}
func TestRegress(t *testing.T) { propNaming.Regress(t); propE2E.Regress(t) }
func TestReplay(t *testing.T) {
	if *hx.ReplayPath == "" {
		t.Skip("no -replay")
	}
	if !propNaming.Replay(t, *hx.ReplayPath) && !propE2E.Replay(t, *hx.ReplayPath) {
		t.Fatalf("no prop matches %s", *hx.ReplayPath)
	}
}
func TestMain(m *testing.M) { hx.Main(m) }
