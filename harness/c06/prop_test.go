package c06

import (
	"bytes"
	"fmt"
	"strings"
	"testing"
	"time"

	"pgregory.net/rapid"
	"verif/harness/hx"
)

const pid = "C06"

// Case is one limit, one message near it, a SIZE parameter choice and a follow-up.
type Case struct {
	Limit  int    `json:"limit"`
	Target int    `json:"target"`  // wanted transmitted size (bytes incl. headers, CRLF line ends)
	Lines  int    `json:"lines"`   // body split in this many lines (band between the two size measures = #line breaks)
	BareLF bool   `json:"bare_lf"` // body lines end in bare LF (both measures coincide)
	Size   string `json:"size"`    // "", "true", "under", "over", "huge", "junk"; Pad zero-pads the number
	Pad    int    `json:"pad,omitempty"`
	// Debug: the server runs with network debugging on (the daemon's -netdebug flag)
	Debug bool `json:"debug,omitempty"`
	// Key is the spelling of the SIZE keyword ("" = SIZE): ESMTP parameter keywords are not case-sensitive
	Key     string `json:"key,omitempty"`
	Backend string `json:"backend"`
	// Extra adds a second recipient of the big message: "" none, "discard" one whose domain is
	// not stored, "other" another stored one.
	Extra string `json:"extra,omitempty"`
	// Follow is the shape of the follow-up transaction's MAIL command: "" bare, "body" with
	// BODY=8BITMIME, "size" with its own truthful SIZE, "size+body", "rset+body" (RSET first).
	Follow string `json:"follow,omitempty"`
	// Lead is the number of empty lines the big message starts with (its "headers" are then empty).
	Lead int `json:"lead,omitempty"`
}

var prop = hx.Prop[Case]{
	ID: pid, Name: "limit",
	Rule: "limit M in 200..65536 (thorough: up to 1 MiB); message sizes concentrated at M-3..M+3, M/2, 2M, 10M, and M + 1..5 MiB; server with and without network debugging (-netdebug); SIZE parameter (keyword in upper, lower or mixed case) absent, " +
		"truthful, understated, overstated but <= M, > M, non-numeric; oracle with two size measures lo (after un-stuffing, CRLF->LF) and hi " +
		"(bytes on the wire): SIZE > M -> refused at MAIL; lo > M -> refusal after the final dot and store unchanged; hi <= M -> 250 and " +
		"stored; in between either; the follow-up small transaction on the same connection must succeed; non-trivial = lo > M without a " +
		"SIZE > M declaration, or hi within 3 bytes of M",
	Quick: 300, Thorough: 1000,
	Gen: func(t *rapid.T) Case {
		c := Case{Backend: rapid.SampledFrom([]string{"mem", "file"}).Draw(t, "backend")}
		lims := []int{200, 256, 1000, 4096, 5000, 65536, 0, 10}
		if hx.Tier() == "thorough" {
			lims = append(lims, 300000, 1048576)
		}
		c.Limit = rapid.SampledFrom(lims).Draw(t, "limit")
		switch rapid.IntRange(0, 9).Draw(t, "where") {
		case 0:
			c.Target = c.Limit / 2
		case 1:
			c.Target = 2 * c.Limit
		case 2:
			c.Target = 10 * c.Limit
		case 3:
			// far beyond the limit: whatever the server does with the excess, it must do it to the end
			c.Target = c.Limit + rapid.SampledFrom([]int{1 << 20, 1<<20 + 1, 2 << 20, 5 << 20}).Draw(t, "far")
		default:
			c.Target = c.Limit + rapid.IntRange(-3, 3).Draw(t, "delta")
		}
		c.Lines = rapid.IntRange(1, 3).Draw(t, "lines")
		c.BareLF = rapid.Bool().Draw(t, "barelf")
		c.Size = rapid.SampledFrom([]string{"", "", "true", "under", "over", "huge", "junk"}).Draw(t, "size")
		c.Pad = rapid.SampledFrom([]int{0, 0, 0, 7, 10, 12}).Draw(t, "pad") // RFC 1870: size-value = 1*20DIGIT, leading zeros are decimal digits
		c.Key = rapid.SampledFrom([]string{"", "", "", "size", "Size", "sIzE"}).Draw(t, "key")
		c.Debug = rapid.IntRange(0, 4).Draw(t, "debug") == 0 && c.Target < c.Limit+(1<<20) // (not for the multi-megabyte messages: the echo goes to the run's log)
		c.Extra = rapid.SampledFrom([]string{"", "", "discard", "other"}).Draw(t, "extra")
		c.Lead = rapid.SampledFrom([]int{0, 0, 0, 1, 2, 5}).Draw(t, "lead")
		c.Follow = rapid.SampledFrom([]string{"", "", "body", "body", "size", "size+body", "rset+body"}).Draw(t, "follow")
		return c
	},
	Run: run,
}

// build makes a message whose wire size (hi) is exactly target when possible.
func build(c Case) []byte {
	nl := "\r\n"
	if c.BareLF {
		nl = "\n"
	}
	hdr := []byte(strings.Repeat(nl, c.Lead) + "Subject: size test\r\n\r\n")
	room := c.Target - len(hdr) - c.Lines*len(nl)
	if room < 0 {
		room = 0
	}
	var b bytes.Buffer
	b.Write(hdr)
	per := room / c.Lines
	for i := 0; i < c.Lines; i++ {
		n := per
		if i == c.Lines-1 {
			n = room - per*(c.Lines-1)
		}
		b.Write(bytes.Repeat([]byte{'a' + byte(i)}, n))
		b.WriteString(nl)
	}
	return b.Bytes()
}

func run(c Case) *hx.Outcome {
	o := &hx.Outcome{}
	cfg := hx.DefaultCfg()
	cfg.Backend, cfg.MaxMessageBytes, cfg.NoHTTP = c.Backend, c.Limit, true
	cfg.NetDebug = c.Debug
	if c.Debug {
		o.Class("server with network debugging on")
	}
	cfg.DiscardDomains = []string{"discard.test"}
	w, err := hx.NewWorld(cfg)
	if err != nil {
		o.Failf(pid+":harness", "world: %v", err)
		return o
	}
	defer w.Close()
	data := build(c)
	hi := len(data)                                                 // bytes on the wire (no line starts with a dot)
	lo := len(bytes.ReplaceAll(data, []byte("\r\n"), []byte("\n"))) // after CRLF -> LF
	model := hx.NewEModel()
	// addBig records the big message for every stored recipient of its transaction
	addBig := func(tx []byte, t0 time.Time) {
		to := []*mailAddr{{Address: "big@a.test"}}
		boxes := []string{"big"}
		switch c.Extra {
		case "discard":
			to = append(to, &mailAddr{Address: "nobody@discard.test"})
		case "other":
			to = append(to, &mailAddr{Address: "big2@a.test"})
			boxes = append(boxes, "big2")
		}
		for _, b := range boxes {
			subject := "size test"
			if c.Lead > 0 {
				subject = "" // the header block is empty, "Subject:" is body text
			}
			e := &hx.EMsg{Mailbox: b, From: (&hx.Addr{Address: "s@a.test"}).Mail(), To: to, Subject: subject, Sender: "s@a.test", Data: tx}
			if !t0.IsZero() {
				e.Helo, e.NotBefo, e.NotAfter = "c.test", t0, time.Now()
			}
			model.Add(e)
		}
	}
	cl, _, err := w.DialSMTP()
	if err != nil {
		o.Failf(pid+":harness", "dial: %v", err)
		return o
	}
	defer cl.Close()
	if r, err := cl.Cmd("EHLO c.test"); err != nil || r.Code != 250 {
		o.Failf(pid+":harness", "EHLO: %v %v", r, err)
		return o
	}
	mail := "MAIL FROM:<s@a.test>"
	declared := -1
	switch c.Size {
	case "true":
		declared = hi
	case "under":
		declared = hi / 2
	case "over":
		declared = c.Limit
	case "huge":
		declared = c.Limit + 1 + hi
	case "junk":
		mail += " SIZE=12x"
	}
	if declared >= 0 {
		key := "SIZE"
		if c.Key != "" {
			key = c.Key
			o.Class("SIZE keyword in another letter case")
		}
		mail += fmt.Sprintf(" %s=%0*d", key, c.Pad, declared)
		if c.Pad > 0 {
			o.Class("zero-padded SIZE")
		}
	}
	o.Class("SIZE " + c.Size)
	r, err := cl.Cmd(mail)
	if err != nil {
		o.Failf(pid+":no-reply", "MAIL: %v", err)
		return o
	}
	opened := r.Class() == 2
	switch {
	case declared > c.Limit:
		if opened {
			o.Failf(pid+":declared-size-accepted", "limit %d: %q answered %v", c.Limit, mail, r)
		}
	case c.Size == "junk":
		// the statement does not fix the reply to an unparsable SIZE
	default:
		if !opened {
			o.Failf(pid+":within-limit-refused", "limit %d: %q (declared %d) answered %v", c.Limit, mail, declared, r)
		}
	}
	if opened {
		if r, err := cl.Cmd("RCPT TO:<big@a.test>"); err != nil || r.Class() != 2 {
			o.Failf(pid+":harness", "RCPT: %v %v", r, err)
			return o
		}
		if c.Extra != "" {
			extra := map[string]string{"discard": "nobody@discard.test", "other": "big2@a.test"}[c.Extra]
			if r, err := cl.Cmd("RCPT TO:<" + extra + ">"); err != nil || r.Class() != 2 {
				o.Failf(pid+":harness", "RCPT: %v %v", r, err)
				return o
			}
			o.Class("second recipient: " + c.Extra)
		}
		if r, err := cl.Cmd("DATA"); err != nil || r.Code != 354 {
			o.Failf(pid+":harness", "DATA: %v %v", r, err)
			return o
		}
		t0 := time.Now()
		r, err := cl.Data(data)
		if err != nil {
			o.Failf(pid+":no-reply", "limit %d, %d bytes: no reply after the final dot: %v", c.Limit, hi, err)
			return o
		}
		_, tx := hx.DotStuff(data)
		switch {
		case lo > c.Limit:
			o.NonTrivial = true
			o.Class("over the limit")
			if r.Class() == 2 {
				o.Failf(pid+":oversize-accepted", "limit %d: a message of %d bytes (%d after CRLF->LF) was acknowledged with %v", c.Limit, hi, lo, r)
				addBig(tx, time.Time{})
			}
		case hi <= c.Limit:
			o.Class("within the limit")
			if r.Code != 250 {
				o.Failf(pid+":within-limit-refused", "limit %d: a message of %d bytes was answered %v", c.Limit, hi, r)
			} else {
				addBig(tx, t0)
			}
		default:
			o.Class("boundary-ambiguous")
			if r.Code == 250 {
				addBig(tx, t0)
			}
		}
		if d := hi - c.Limit; d >= -3 && d <= 3 {
			o.NonTrivial = true
			o.Class("within 3 bytes of the limit")
		}
		if err := hx.CmpE2E(w.Store, model, []string{"big", "big2", "small", "nobody"}); err != nil && !o.Failed() {
			o.Failf(pid+":oversize-stored", "limit %d, message %d bytes, reply %v: %v", c.Limit, hi, r, err)
		}
	}
	// the session must remain usable
	small := []byte("Subject: small\r\n\r\nok\r\n")
	follow := map[string]string{"": "", "body": " BODY=8BITMIME", "size": fmt.Sprintf(" SIZE=%d", len(small)), "size+body": fmt.Sprintf(" SIZE=%d BODY=8BITMIME", len(small)),
		"rset+body": " BODY=8BITMIME"}[c.Follow]
	steps := []string{"MAIL FROM:<s@a.test>" + follow, "RCPT TO:<small@a.test>", "DATA"}
	if c.Follow == "rset+body" {
		steps = append([]string{"RSET"}, steps...)
	}
	o.Class("follow-up MAIL: " + c.Follow)
	if c.Limit < len(small) {
		// a limit so low (0, 10) that even the small message is over it: the follow-up is refused
		// too - at MAIL when it declares its size, else after the final dot - and stores nothing
		o.Class("limit below the follow-up message")
		refused := false
		for _, s := range steps {
			r, err := cl.Cmd(s)
			if err != nil {
				o.Failf(pid+":session-unusable", "after the first transaction %q: %v", s, err)
				return o
			}
			if r.Code == 552 && strings.HasPrefix(s, "MAIL") && strings.Contains(s, "SIZE=") {
				refused = true
				break
			}
			if r.Class() != 2 && r.Code != 354 {
				o.Failf(pid+":session-unusable", "after the first transaction %q answered %v", s, r)
				return o
			}
		}
		if !refused {
			if r, err := cl.Data(small); err != nil || r.Class() == 2 {
				o.Failf(pid+":oversize-accepted", "limit %d: the %d-byte follow-up message was answered %v (err %v)", c.Limit, len(small), r, err)
			}
		}
		if err := hx.CmpE2E(w.Store, model, []string{"big", "big2", "small", "nobody"}); err != nil && !o.Failed() {
			o.Failf(pid+":oversize-stored", "limit %d: after the refused follow-up: %v", c.Limit, err)
		}
		return o
	}
	for _, s := range steps {
		r, err := cl.Cmd(s)
		if err != nil || (r.Class() != 2 && r.Code != 354) {
			o.Failf(pid+":session-unusable", "after the first transaction %q answered %v (err %v)", s, r, err)
			return o
		}
	}
	t0 := time.Now()
	r, err = cl.Data(small)
	if err != nil || r.Code != 250 {
		o.Failf(pid+":session-unusable", "follow-up message answered %v (err %v)", r, err)
		return o
	}
	_, tx := hx.DotStuff(small)
	model.Add(&hx.EMsg{Mailbox: "small", From: (&hx.Addr{Address: "s@a.test"}).Mail(), To: []*mailAddr{{Address: "small@a.test"}}, Subject: "small", Sender: "s@a.test", Helo: "c.test", Data: tx, NotBefo: t0, NotAfter: time.Now()})
	if err := hx.CmpE2E(w.Store, model, []string{"big", "big2", "small", "nobody"}); err != nil && !o.Failed() {
		o.Failf(pid+":store-differs", "after the follow-up: %v", err)
	}
	return o
}

// ---- crowd: the limit holds for each session while others are busy ----

// WCase: sessions run at once; Sizes[s][k] is the body size of session s's k-th message, some
// under and some over the limit.
type WCase struct {
	Limit int     `json:"limit"`
	Sizes [][]int `json:"sizes"`
}

var propCrowd = hx.Prop[WCase]{
	ID: pid, Name: "crowd",
	Rule: "limit 5000 or 20000 bytes; 2-8 SMTP sessions run freely at once, each sending 2-5 messages whose sizes are well under, or well over, the limit " +
		"(every body line names its session and message); every message under the limit must be acknowledged and stored with exactly its own content, every " +
		"message over it refused with 552, and nothing of a refused message may be stored anywhere; non-trivial = at least three sessions with both " +
		"kinds of message; distinct = distinct case JSON",
	Quick: 40, Thorough: 400,
	Gen: func(t *rapid.T) WCase {
		c := WCase{Limit: rapid.SampledFrom([]int{5000, 20000}).Draw(t, "limit")}
		sz := rapid.Custom(func(t *rapid.T) int {
			if rapid.Bool().Draw(t, "over") {
				return c.Limit + rapid.SampledFrom([]int{2000, 10000, 60000}).Draw(t, "excess")
			}
			return rapid.SampledFrom([]int{100, c.Limit / 3, c.Limit - 1500}).Draw(t, "under")
		})
		c.Sizes = rapid.SliceOfN(rapid.SliceOfN(sz, 2, 5), 2, 8).Draw(t, "sizes")
		return c
	},
	Run: func(c WCase) *hx.Outcome {
		o := &hx.Outcome{}
		cfg := hx.DefaultCfg()
		cfg.Backend, cfg.MaxMessageBytes, cfg.NoHTTP = "file", c.Limit, true
		w, err := hx.NewWorld(cfg)
		if err != nil {
			o.Failf(pid+":harness", "world: %v", err)
			return o
		}
		defer w.Close()
		var sessions [][]hx.PTxn
		overs, unders, mixed := 0, 0, 0
		for si, l := range c.Sizes {
			var txns []hx.PTxn
			so, su := false, false
			for ti, n := range l {
				line := []byte(fmt.Sprintf("W%02dM%02d.abcdefghijklmnopqrstuvwxyz0123456789.\r\n", si, ti))
				txns = append(txns, hx.PTxn{Rcpts: []string{fmt.Sprintf("w%d@a.test", si)}, Body: bytes.Repeat(line, n/len(line)+1)[:n/len(line)*len(line)]})
				if n > c.Limit {
					overs++
					so = true
				} else {
					unders++
					su = true
				}
			}
			if so && su {
				mixed++
			}
			sessions = append(sessions, txns)
		}
		acked, problems := hx.RunParallel(w, sessions, false)
		refused := 0
		for _, p := range problems {
			if strings.HasPrefix(p, "REFUSED 552:") {
				refused++
				continue
			}
			o.Failf(pid+":crowd-session", "%s", p)
		}
		if refused != overs && !o.Failed() {
			o.Failf(pid+":crowd-refusals", "limit %d: %d messages over the limit were sent, %d were refused with 552 (%d under the limit, %d acknowledged)", c.Limit, overs, refused, unders, len(acked))
		}
		if o.Failed() {
			return o
		}
		model := hx.NewEModel()
		for _, e := range acked {
			model.Add(e)
		}
		hx.SortForUnordered(w.Store, model)
		if err := hx.CmpE2E(w.Store, model, nil); err != nil {
			o.Failf(pid+":crowd-store", "limit %d, %d sessions: %v", c.Limit, len(c.Sizes), err)
		}
		o.NonTrivial = mixed >= 3
		return o
	},
}

func TestProp(t *testing.T)    { prop.Check(t); propCrowd.Check(t) }
func TestRegress(t *testing.T) { prop.Regress(t); propCrowd.Regress(t) }
func TestReplay(t *testing.T) {
	if *hx.ReplayPath == "" {
		t.Skip("no -replay")
	}
	if !prop.Replay(t, *hx.ReplayPath) && !propCrowd.Replay(t, *hx.ReplayPath) {
		t.Fatalf("no prop matches %s", *hx.ReplayPath)
	}
}
func TestMain(m *testing.M) { hx.Main(m) }
