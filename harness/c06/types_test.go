package c06

import "net/mail"

type mailAddr = mail.Address
