package c07

import (
	"bytes"
	"fmt"
	"os"
	"strings"
	"testing"
	"time"

	"github.com/inbucket/inbucket/v3/pkg/storage"

	"github.com/inbucket/inbucket/v3/pkg/extension"
	"pgregory.net/rapid"
	"verif/harness/hx"
)

const pid = "C07"

// Case is one generated store history, applied to both back-ends.
type Case struct {
	Boxes []string `json:"boxes"`
	Ops   []hx.Op  `json:"ops"`
	// NearWrap first advances the file store's process-wide 4-digit id counter to just below
	// 9999, so that the ids issued during the case straddle its wrap to 0000.
	NearWrap bool `json:"near_wrap,omitempty"`
}

var kinds = []string{"add", "add", "add", "add", "get", "get", "list", "seen", "remove", "remove", "purge", "visit", "addfail"}

var prop = hx.Prop[Case]{
	ID: pid, Name: "hist",
	Rule: "rapid-generated histories of 10-60 store operations (add/get/latest/list/mark-seen/remove/purge/visit) over 4-6 mailboxes " +
		"(lock-bucket mates, special-character names), applied to the mem store, the file store and a map-of-lists reference model, " +
		"whole-store comparison after every step and step-by-step comparison of the two back-ends; non-trivial = touches >=2 mailboxes and " +
		"has a remove/purge followed by an add to the same mailbox or a request for a non-existent id; distinct = distinct case JSON",
	Quick: 400, Thorough: 3000,
	Gen: func(t *rapid.T) Case {
		return Case{
			Boxes: hx.BoxesGen(4, 6).Draw(t, "boxes"),
			Ops:   rapid.SliceOfN(hx.OpGen(kinds), 10, 60).Draw(t, "ops"),
		}
	},
	Run: run,
}

func run(c Case) *hx.Outcome {
	o := &hx.Outcome{}
	dir := hx.TempDir()
	defer os.RemoveAll(dir)
	mem := &hx.Sys{Name: "mem", Store: hx.NewMem(extension.NewHost(), 0, 0), Model: hx.NewModel(0, 0), Boxes: c.Boxes}
	file := &hx.Sys{Name: "file", Store: hx.NewFile(extension.NewHost(), dir, 0), Model: hx.NewModel(0, 0), Boxes: c.Boxes}
	if c.NearWrap {
		o.Class("ids straddle the wrap of the file store's id counter")
		for n := 0; n < 10050; n++ {
			id, err := file.Store.AddMessage(hx.NewDelivery("wrapfill", nil, nil, hx.BaseTime, "f", []byte("x")))
			if err != nil {
				o.Failf(pid+":harness", "wrap fill: %v", err)
				return o
			}
			if n%50 == 49 {
				_ = file.Store.PurgeMessages("wrapfill")
			}
			if len(id) > 4 && id[len(id)-4:] >= "9994" {
				break
			}
		}
		_ = file.Store.PurgeMessages("wrapfill")
	}
	diverged := false
	for i, op := range c.Ops {
		a := mem.Apply(pid, op, o)
		b := file.Apply(pid, op, o)
		// An id borrowed from another mailbox is a different string in each back-end's id
		// scheme (it may be live here in one and not in the other), so only each store's own
		// model judges that step, and if such a step mutated one store only the step-by-step
		// comparison stops for the rest of the case.
		if a != b && op.Ref != nil && op.Ref.Kind == "other" {
			diverged = true
		}
		if a != b && !diverged && !o.Failed() {
			o.Failf(pid+":backends-differ", "step %d %s: mem observed %q, file observed %q", i, op.K, a, b)
		}
		mem.Check(pid, i, o)
		file.Check(pid, i, o)
		if o.Failed() {
			break
		}
	}
	readd, missing, boxes := hx.HistClasses(c.Ops, len(c.Boxes), o)
	o.NonTrivial = boxes >= 2 && (readd || missing)
	return o
}

// propWrap is the same machine with the file store's id counter first advanced to just below
// its wrap (about 10 s per case, hence few cases).
var propWrap = hx.Prop[Case]{
	ID: pid, Name: "wrap",
	Rule: "the same histories, but first the file store's process-wide 4-digit id counter is advanced to just below 9999 by throw-away " +
		"deliveries, so that the ids issued during the case straddle its wrap to 0000 (ids of one second are then not ascending); same " +
		"oracle; non-trivial as above",
	Quick: 1, Thorough: 3,
	Gen: func(t *rapid.T) Case {
		return Case{Boxes: hx.BoxesGen(2, 3).Draw(t, "boxes"), Ops: rapid.SliceOfN(hx.OpGen(kinds), 25, 60).Draw(t, "ops"), NearWrap: true}
	},
	Run: run,
}

// ---- long: ids over a history longer than the id counter's period ----

// LCase: Keep messages stay in the mailbox while N further deliveries to the same mailbox come
// and go one at a time.  Dates: "same" every delivery carries one fixed date, "step" each
// carries a date one second after the previous one, "now" the current time.
type LCase struct {
	Backend string `json:"backend"`
	Box     string `json:"box"`
	Keep    int    `json:"keep"`
	N       int    `json:"n"`
	Dates   string `json:"dates"`
}

var propLong = hx.Prop[LCase]{
	ID: pid, Name: "long",
	Rule: "one mailbox of the file (or mem) store keeps 1-3 messages while 10010-10300 further deliveries to it are added and removed one at a " +
		"time (more than the period of the file store's 4-digit id counter), the deliveries carrying one fixed date, dates one second apart, or " +
		"the current time, paced below 5000 a second (the id scheme's documented resolution is 10000 ids a second); no id may ever be issued " +
		"twice for the mailbox, the listing is checked every 500 steps and the kept messages must read back as written at the end; " +
		"non-trivial = always (every case crosses the counter's period); distinct = distinct case JSON",
	Quick: 1, Thorough: 3,
	Gen: func(t *rapid.T) LCase {
		return LCase{
			Backend: rapid.SampledFrom([]string{"file", "file", "file", "mem"}).Draw(t, "backend"),
			Box:     rapid.SampledFrom([]string{"long", "long@a.test", "l+o.n-g"}).Draw(t, "box"),
			Keep:    rapid.IntRange(1, 3).Draw(t, "keep"),
			N:       rapid.IntRange(10010, 10300).Draw(t, "n"),
			Dates:   rapid.SampledFrom([]string{"same", "same", "step", "now"}).Draw(t, "dates"),
		}
	},
	Run: func(c LCase) *hx.Outcome {
		o := &hx.Outcome{NonTrivial: true}
		o.Class("backend " + c.Backend + ", dates " + c.Dates)
		var st storage.Store
		if c.Backend == "file" {
			dir := hx.TempDir()
			defer os.RemoveAll(dir)
			st = hx.NewFile(extension.NewHost(), dir, 0)
		} else {
			st = hx.NewMem(extension.NewHost(), 0, 0)
		}
		date := func(i int) time.Time {
			switch c.Dates {
			case "step":
				return hx.BaseTime.Add(time.Duration(i) * time.Second)
			case "now":
				return time.Now()
			}
			return hx.BaseTime
		}
		issued := map[string]int{}
		add := func(i int, body []byte) (string, bool) {
			id, err := st.AddMessage(hx.NewDelivery(c.Box, nil, nil, date(i), fmt.Sprintf("s%d", i), body))
			if err != nil {
				o.Failf(pid+":add-failed", "[%s] delivery %d: %v", c.Backend, i, err)
				return "", false
			}
			if prev, dup := issued[id]; dup {
				o.Failf(pid+":id-reused", "[%s dates=%s] delivery %d to %q was given the id %q, which delivery %d to the same mailbox already had", c.Backend, c.Dates, i, c.Box, id, prev)
				return "", false
			}
			issued[id] = i
			return id, true
		}
		var keptIDs []string
		var keptBody [][]byte
		for k := 0; k < c.Keep; k++ {
			b := []byte(fmt.Sprintf("kept message %d\r\n%s\r\n", k, strings.Repeat("k", 10*k)))
			id, ok := add(k, b)
			if !ok {
				return o
			}
			keptIDs, keptBody = append(keptIDs, id), append(keptBody, b)
		}
		listing := func(step int, extra string) bool {
			ms, err := st.GetMessages(c.Box)
			want := append([]string{}, keptIDs...)
			if extra != "" {
				want = append(want, extra)
			}
			var got []string
			for _, m := range ms {
				got = append(got, m.ID())
			}
			if err != nil || strings.Join(got, ",") != strings.Join(want, ",") {
				o.Failf(pid+":long-listing", "[%s dates=%s] after delivery %d the mailbox lists %v (err %v), expected %v", c.Backend, c.Dates, step, got, err, want)
				return false
			}
			return true
		}
		t0 := time.Now()
		for i := c.Keep; i < c.Keep+c.N; i++ {
			// stay below the id scheme's resolution: it promises distinct ids for 10000 deliveries a second
			if ahead := time.Duration(i-c.Keep)*200*time.Microsecond - time.Since(t0); ahead > 0 {
				time.Sleep(ahead)
			}
			id, ok := add(i, []byte(fmt.Sprintf("passing message %d\r\n", i)))
			if !ok {
				return o
			}
			if i%500 == 0 && !listing(i, id) {
				return o
			}
			if err := st.RemoveMessage(c.Box, id); err != nil {
				o.Failf(pid+":remove-failed", "[%s] removing delivery %d (%s): %v", c.Backend, i, id, err)
				return o
			}
		}
		if !listing(c.Keep+c.N, "") {
			return o
		}
		for k, id := range keptIDs {
			m, err := st.GetMessage(c.Box, id)
			if err != nil || m == nil {
				o.Failf(pid+":long-kept-lost", "[%s dates=%s] kept message %d (%s): %v", c.Backend, c.Dates, k, id, err)
				continue
			}
			src, err := hx.ReadSource(m)
			if err != nil || !bytes.Equal(src, keptBody[k]) || m.Size() != int64(len(keptBody[k])) {
				o.Failf(pid+":long-kept-content", "[%s dates=%s] kept message %d (%s) reads back %q size %d (err %v), written %q", c.Backend, c.Dates, k, id, src, m.Size(), err, keptBody[k])
			}
		}
		return o
	},
}

func TestProp(t *testing.T) {
	t.Run("hist", prop.Check)
	t.Run("wrap", propWrap.Check)
	t.Run("long", propLong.Check)
}
func TestRegress(t *testing.T) { prop.Regress(t); propWrap.Regress(t); propLong.Regress(t) }
func TestReplay(t *testing.T) {
	if *hx.ReplayPath == "" {
		t.Skip("no -replay")
	}
	if !prop.Replay(t, *hx.ReplayPath) && !propWrap.Replay(t, *hx.ReplayPath) && !propLong.Replay(t, *hx.ReplayPath) {
		t.Fatalf("no prop matches %s", *hx.ReplayPath)
	}
}
func TestMain(m *testing.M) { hx.Main(m) }
