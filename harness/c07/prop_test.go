package c07

import (
	"os"
	"testing"

	"github.com/inbucket/inbucket/v3/pkg/extension"
	"pgregory.net/rapid"
	"verif/harness/hx"
)

const pid = "C07"

// Case is one generated store history, applied to both back-ends.
type Case struct {
	Boxes []string `json:"boxes"`
	Ops   []hx.Op  `json:"ops"`
	// NearWrap first advances the file store's process-wide 4-digit id counter to just below
	// 9999, so that the ids issued during the case straddle its wrap to 0000.
	NearWrap bool `json:"near_wrap,omitempty"`
}

var kinds = []string{"add", "add", "add", "add", "get", "get", "list", "seen", "remove", "remove", "purge", "visit", "addfail"}

var prop = hx.Prop[Case]{
	ID: pid, Name: "hist",
	Rule: "rapid-generated histories of 10-60 store operations (add/get/latest/list/mark-seen/remove/purge/visit) over 4-6 mailboxes " +
		"(lock-bucket mates, special-character names), applied to the mem store, the file store and a map-of-lists reference model, " +
		"whole-store comparison after every step and step-by-step comparison of the two back-ends; non-trivial = touches >=2 mailboxes and " +
		"has a remove/purge followed by an add to the same mailbox or a request for a non-existent id; distinct = distinct case JSON",
	Quick: 400, Thorough: 3000,
	Gen: func(t *rapid.T) Case {
		return Case{
			Boxes: hx.BoxesGen(4, 6).Draw(t, "boxes"),
			Ops:   rapid.SliceOfN(hx.OpGen(kinds), 10, 60).Draw(t, "ops"),
		}
	},
	Run: run,
}

func run(c Case) *hx.Outcome {
	o := &hx.Outcome{}
	dir := hx.TempDir()
	defer os.RemoveAll(dir)
	mem := &hx.Sys{Name: "mem", Store: hx.NewMem(extension.NewHost(), 0, 0), Model: hx.NewModel(0, 0), Boxes: c.Boxes}
	file := &hx.Sys{Name: "file", Store: hx.NewFile(extension.NewHost(), dir, 0), Model: hx.NewModel(0, 0), Boxes: c.Boxes}
	if c.NearWrap {
		o.Class("ids straddle the wrap of the file store's id counter")
		for n := 0; n < 10050; n++ {
			id, err := file.Store.AddMessage(hx.NewDelivery("wrapfill", nil, nil, hx.BaseTime, "f", []byte("x")))
			if err != nil {
				o.Failf(pid+":harness", "wrap fill: %v", err)
				return o
			}
			if n%50 == 49 {
				_ = file.Store.PurgeMessages("wrapfill")
			}
			if len(id) > 4 && id[len(id)-4:] >= "9994" {
				break
			}
		}
		_ = file.Store.PurgeMessages("wrapfill")
	}
	diverged := false
	for i, op := range c.Ops {
		a := mem.Apply(pid, op, o)
		b := file.Apply(pid, op, o)
		// An id borrowed from another mailbox is a different string in each back-end's id
		// scheme (it may be live here in one and not in the other), so only each store's own
		// model judges that step, and if such a step mutated one store only the step-by-step
		// comparison stops for the rest of the case.
		if a != b && op.Ref != nil && op.Ref.Kind == "other" {
			diverged = true
		}
		if a != b && !diverged && !o.Failed() {
			o.Failf(pid+":backends-differ", "step %d %s: mem observed %q, file observed %q", i, op.K, a, b)
		}
		mem.Check(pid, i, o)
		file.Check(pid, i, o)
		if o.Failed() {
			break
		}
	}
	readd, missing, boxes := hx.HistClasses(c.Ops, len(c.Boxes), o)
	o.NonTrivial = boxes >= 2 && (readd || missing)
	return o
}

// propWrap is the same machine with the file store's id counter first advanced to just below
// its wrap (about 10 s per case, hence few cases).
var propWrap = hx.Prop[Case]{
	ID: pid, Name: "wrap",
	Rule: "the same histories, but first the file store's process-wide 4-digit id counter is advanced to just below 9999 by throw-away " +
		"deliveries, so that the ids issued during the case straddle its wrap to 0000 (ids of one second are then not ascending); same " +
		"oracle; non-trivial as above",
	Quick: 1, Thorough: 3,
	Gen: func(t *rapid.T) Case {
		return Case{Boxes: hx.BoxesGen(2, 3).Draw(t, "boxes"), Ops: rapid.SliceOfN(hx.OpGen(kinds), 25, 60).Draw(t, "ops"), NearWrap: true}
	},
	Run: run,
}

func TestProp(t *testing.T) {
	t.Run("hist", prop.Check)
	t.Run("wrap", propWrap.Check)
}
func TestRegress(t *testing.T) { prop.Regress(t); propWrap.Regress(t) }
func TestReplay(t *testing.T) {
	if *hx.ReplayPath == "" {
		t.Skip("no -replay")
	}
	if !prop.Replay(t, *hx.ReplayPath) && !propWrap.Replay(t, *hx.ReplayPath) {
		t.Fatalf("no prop matches %s", *hx.ReplayPath)
	}
}
func TestMain(m *testing.M) { hx.Main(m) }
