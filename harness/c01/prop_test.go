package c01

import (
	"bytes"
	"fmt"
	"strings"
	"sync"
	"testing"
	"time"

	"github.com/inbucket/inbucket/v3/pkg/extension"
	"github.com/inbucket/inbucket/v3/pkg/extension/event"
	"pgregory.net/rapid"
	"verif/harness/hx"
)

const pid = "C01"

// Txn is one SMTP transaction attempt.
type Txn struct {
	Mail   string      `json:"mail"`   // argument after "MAIL "
	Sender string      `json:"sender"` // the address inside <>, as the model knows it
	Rcpts  []string    `json:"rcpts"`  // addresses put inside "RCPT TO:<...>"
	End    string      `json:"end"`    // data | rset | ehlo | mail | quit | drop | dropdata | none
	Msg    *hx.MailMsg `json:"msg,omitempty"`
	TooBig bool        `json:"too_big,omitempty"`
}

// Case is a configuration plus several connections of several transactions.
type Case struct {
	Cfg   hx.Cfg  `json:"cfg"`
	Conns [][]Txn `json:"conns"`
}

var txnGen = rapid.Custom(func(t *rapid.T) Txn {
	var x Txn
	switch rapid.IntRange(0, 11).Draw(t, "mailkind") {
	case 0:
		x.Sender = ""
		x.Mail = "FROM:<>"
	case 1:
		x.Sender = "s@bad.test"
		x.Mail = "FROM:<s@bad.test>"
	case 2:
		x.Mail = rapid.SampledFrom([]string{"FROM:s@a.test", "TO:<s@a.test>", "FROM:<s@a.test> SIZE", "FROM:<no at sign>", "FROM:<s@a.test> SIZE=99999999999"}).Draw(t, "badmail")
		x.Sender = "s@a.test"
	case 3:
		x.Sender = "sender@B.Test"
		x.Mail = "FROM:<sender@B.Test> BODY=8BITMIME SIZE=1000"
	default:
		x.Sender = rapid.SampledFrom([]string{"sender@a.test", "other@c.test", "x+y@sub.a.test"}).Draw(t, "sender")
		x.Mail = "FROM:<" + x.Sender + ">"
	}
	pool := rapid.SliceOfN(hx.RcptGen, 1, 4).Draw(t, "pool")
	n := rapid.IntRange(0, 7).Draw(t, "nrcpt")
	for i := 0; i < n; i++ {
		r := rapid.SampledFrom(pool).Draw(t, "rcpt") // small pool: duplicates are frequent
		switch rapid.IntRange(0, 5).Draw(t, "variant") {
		case 0:
			r = hx.ReCase(r, rapid.Uint64().Draw(t, "mask"))
		case 1:
			l, d := hx.SplitAddr(r)
			if d != "" {
				r = l + "+v@" + d
			}
		case 2:
			// the same local part on another vocabulary domain: one mailbox under local
			// naming, yet possibly another accept/store verdict
			l, d := hx.SplitAddr(r)
			if d != "" {
				r = l + "@" + rapid.SampledFrom(hx.Domains).Draw(t, "otherdom")
			}
		}
		x.Rcpts = append(x.Rcpts, r)
	}
	x.End = rapid.SampledFrom([]string{"data", "data", "data", "data", "data", "bigdata", "rset", "ehlo", "mail", "quit", "drop", "dropdata", "dropdata", "none"}).Draw(t, "end")
	if x.End == "data" {
		x.Msg = hx.MailMsgGen(hx.SimpleBodyGen, 10).Draw(t, "msg")
	}
	if x.End == "bigdata" {
		// a message over the configured maximum size: must be refused and add nothing
		x.End = "data"
		x.Msg = &hx.MailMsg{Subject: "too big", Body: bytes.Repeat([]byte("0123456789abcdef\r\n"), 400)}
		x.TooBig = true
	}
	return x
})

var prop = hx.Prop[Case]{
	ID: pid, Name: "txns",
	Rule: "rapid-generated configurations (3 naming modes x default accept/store switches and lists x max recipients 1-5 x mem/file) and 1-4 " +
		"connections of 1-5 SMTP transactions (valid/refused/malformed MAIL, 0-7 RCPTs from a small pool incl. duplicates, case and +ext " +
		"variants, malformed and policy-refused ones, endings DATA+message/DATA+bad header/RSET/EHLO/second MAIL/QUIT/drop/none) run over " +
		"net.Pipe against the real session->manager->store; a client-side model fed with the observed reply codes predicts the complete " +
		"store, compared (all mailboxes via VisitMailboxes, metadata, trace headers, content) after every transaction; non-trivial = >=2 " +
		"transactions on one connection, or a duplicate/variant recipient, or accepted and refused recipients mixed, or a non-250 ending " +
		"after accepted recipients; distinct = distinct case JSON",
	Quick: 1000, Thorough: 4000,
	Gen: func(t *rapid.T) Case {
		cfg := hx.PolicyCfgGen(hx.DefaultCfg()).Draw(t, "cfg")
		cfg.MaxMessageBytes = 4000 // every generated message but the "too big" one is far below this
		cfg.Assembled = rapid.IntRange(0, 3).Draw(t, "assembled") == 0
		if rapid.Bool().Draw(t, "permissive") {
			// half of the cases accept and store by default so that deliveries are frequent
			cfg.DefaultAccept, cfg.DefaultStore, cfg.RejectOrigin = true, true, nil
		}
		return Case{
			Cfg:   cfg,
			Conns: rapid.SliceOfN(rapid.SliceOfN(txnGen, 1, 5), 1, 4).Draw(t, "conns"),
		}
	},
	Run: run,
}

func run(c Case) *hx.Outcome {
	o := &hx.Outcome{}
	cfg := c.Cfg
	cfg.NoHTTP = true
	w, err := hx.NewWorld(cfg)
	if err != nil {
		o.Failf(pid+":harness", "world: %v", err)
		return o
	}
	defer w.Close()
	model := hx.NewEModel()
	var extra []string
	for _, conn := range c.Conns {
		for _, x := range conn {
			for _, r := range x.Rcpts {
				if n, err := w.MailboxFor(r); err == nil {
					extra = append(extra, n)
				}
				extra = append(extra, r)
			}
		}
	}
	check := func(where string) bool {
		if err := hx.CmpE2E(w.Store, model, extra); err != nil {
			o.Failf(pid+":store-differs", "%s: %v", where, err)
			return false
		}
		return true
	}
	for ci, conn := range c.Conns {
		if len(conn) >= 2 {
			o.NonTrivial = true
			o.Class("several transactions on one connection")
		}
		cl, greet, err := w.DialSMTP()
		if err != nil || greet.Code != 220 {
			o.Failf(pid+":no-greeting", "conn %d: greeting %v err %v", ci, greet, err)
			return o
		}
		if r, err := cl.Cmd("EHLO client.test"); err != nil || r.Code != 250 {
			o.Failf(pid+":ehlo-refused", "conn %d: EHLO -> %v err %v", ci, r, err)
			_ = cl.Close()
			return o
		}
		// client-side view of the envelope: recipients accepted since the most recent accepted MAIL
		open := false
		sender := ""
		var accepted []string
		ended := false
		for ti, x := range conn {
			where := fmt.Sprintf("conn %d txn %d", ci, ti)
			r, err := cl.Cmd("MAIL " + x.Mail)
			if err != nil {
				o.Failf(pid+":no-reply", "%s: MAIL: %v", where, err)
				ended = true
				break
			}
			if r.Class() == 2 {
				open, sender, accepted = true, x.Sender, nil
			}
			seen := map[string]bool{}
			refused, dup := 0, false
			for _, rc := range x.Rcpts {
				r, err := cl.Cmd("RCPT TO:<" + rc + ">")
				if err != nil {
					o.Failf(pid+":no-reply", "%s: RCPT: %v", where, err)
					ended = true
					break
				}
				if r.Class() == 2 {
					if !open {
						o.Failf(pid+":rcpt-without-mail", "%s: RCPT <%s> accepted (%v) although no MAIL was accepted", where, rc, r)
					}
					if n, err := w.MailboxFor(rc); err == nil && seen[n] {
						dup = true
					} else if err == nil {
						seen[n] = true
					}
					accepted = append(accepted, rc)
				} else {
					refused++
				}
			}
			if ended {
				break
			}
			if dup {
				o.NonTrivial = true
				o.Class("duplicate/variant recipient accepted")
			}
			if refused > 0 && len(accepted) > 0 {
				o.NonTrivial = true
				o.Class("accepted and refused recipients mixed")
			}
			switch x.End {
			case "data":
				t0 := time.Now()
				r, err := cl.Cmd("DATA")
				if err != nil {
					o.Failf(pid+":no-reply", "%s: DATA: %v", where, err)
					ended = true
					break
				}
				if r.Code == 354 {
					if !open || len(accepted) == 0 {
						o.Failf(pid+":data-without-rcpt", "%s: DATA answered 354 with no accepted recipient", where)
					}
					data := x.Msg.Bytes()
					_, transmitted := hx.DotStuff(data)
					r, err = cl.Data(data)
					if err != nil {
						o.Failf(pid+":no-reply", "%s: end of DATA: %v", where, err)
						ended = true
						break
					}
					if r.Code == 250 && x.TooBig {
						o.Failf(pid+":oversize-accepted", "%s: a %d-byte message was acknowledged under a 4000-byte limit", where, len(data))
					}
					if r.Code == 250 {
						from, to, subj := x.Msg.Expect(sender, accepted)
						for _, rc := range accepted {
							_, dom := hx.SplitAddr(rc)
							if !hx.RefStore(c.Cfg, dom) {
								o.Class("recipient in a discard domain")
								continue
							}
							mb, err := w.MailboxFor(rc)
							if err != nil {
								o.Failf(pid+":accepted-unnameable", "%s: accepted recipient <%s> has no mailbox name: %v", where, rc, err)
								continue
							}
							// The documented examples fix the name of plain lower-case addresses only;
							// letter case and exotic shapes are C04's subject, not asserted here.
							if ref, ok := hx.RefMailboxPlain(c.Cfg.Naming, rc); ok && rc == strings.ToLower(rc) && ref != mb {
								o.Failf(pid+":naming", "%s: <%s> is named %q, documented naming gives %q", where, rc, mb, ref)
							}
							model.Add(&hx.EMsg{Mailbox: mb, From: from, To: to, Subject: subj, Sender: sender, Helo: "client.test",
								Data: transmitted, NotBefo: t0, NotAfter: time.Now()})
						}
					} else {
						if !x.Msg.BadHeader && !x.TooBig {
							o.Failf(pid+":valid-refused", "%s: well-formed message to accepted recipients answered %v", where, r)
						}
						if len(accepted) > 0 {
							o.NonTrivial = true
							o.Class("non-250 ending after accepted recipients")
						}
					}
					open, accepted = false, nil
				} else if open && len(accepted) > 0 {
					o.Failf(pid+":data-refused", "%s: DATA with %d accepted recipients answered %v", where, len(accepted), r)
				}
			case "rset":
				if r, err := cl.Cmd("RSET"); err == nil && r.Class() == 2 {
					if len(accepted) > 0 {
						o.NonTrivial = true
						o.Class("non-250 ending after accepted recipients")
					}
					open, accepted = false, nil
				}
			case "ehlo":
				if r, err := cl.Cmd("EHLO again.test"); err == nil && r.Class() == 2 {
					if len(accepted) > 0 {
						o.NonTrivial = true
						o.Class("non-250 ending after accepted recipients")
					}
					open, accepted = false, nil
				}
			case "mail":
				if r, err := cl.Cmd("MAIL FROM:<second@a.test>"); err == nil && r.Class() == 2 {
					open, sender, accepted = true, "second@a.test", nil
				}
			case "quit":
				_, _ = cl.Cmd("QUIT")
				ended = true
			case "drop":
				ended = true
			case "dropdata":
				// the client goes away in the middle of the data: the transaction never completed
				if r, err := cl.Cmd("DATA"); err == nil && r.Code == 354 {
					_ = cl.Write([]byte("Subject: abandoned\r\n\r\nfirst line, and then nothing more\r\n"))
				}
				ended = true
			}
			if !check(where) || ended {
				break
			}
		}
		if err := cl.Close(); err != nil {
			o.Failf(pid+":session-wedged", "conn %d: %v", ci, err)
		}
		if !check(fmt.Sprintf("after conn %d", ci)) {
			break
		}
		if o.Failed() {
			break
		}
	}
	o.Class("naming " + c.Cfg.Naming)
	o.Class("backend " + c.Cfg.Backend)
	if model.Count() > 0 {
		o.Class("something stored")
	}
	return o
}

// ---- parallel: the same accounting when connections overlap ----

// PCase: several connections deliver at once, mostly to mailboxes that do not exist yet.
type PCase struct {
	Backend  string      `json:"backend"`
	Naming   string      `json:"naming"`
	Barrier  bool        `json:"barrier"`
	Sessions [][]hx.PTxn `json:"sessions"`
}

var propParallel = hx.Prop[PCase]{
	ID: pid, Name: "parallel",
	Rule: "2-10 SMTP connections run at once, each 1-3 transactions with 1-3 recipients from three mailboxes that do not exist when the case starts " +
		"(accept/store everything, mem or file store, any naming mode); in most cases the connections hold their final dot until all have sent their " +
		"data and release it together; afterwards every recipient of every transaction acknowledged with 250 must have gained exactly one copy " +
		"(matched by sender and content) and nothing else may exist; non-trivial = at least two connections delivered to one mailbox in the same " +
		"round; distinct = distinct case JSON",
	Quick: 120, Thorough: 1200,
	Gen: func(t *rapid.T) PCase {
		c := PCase{Backend: rapid.SampledFrom([]string{"mem", "mem", "file"}).Draw(t, "backend"), Naming: rapid.SampledFrom([]string{"local", "local", "full", "domain"}).Draw(t, "naming"),
			Barrier: rapid.IntRange(0, 3).Draw(t, "barrier") > 0}
		txn := rapid.Custom(func(t *rapid.T) hx.PTxn {
			return hx.PTxn{
				Rcpts: rapid.SliceOfNDistinct(rapid.SampledFrom([]string{"p0@a.test", "p1@a.test", "p2@b.test"}), 1, 3, func(s string) string { return s }).Draw(t, "rcpts"),
				Body:  []byte(rapid.SampledFrom([]string{"x\r\n", "hello\r\nworld\r\n", ""}).Draw(t, "body")),
			}
		})
		c.Sessions = rapid.SliceOfN(rapid.SliceOfN(txn, 1, 3), 2, 10).Draw(t, "sessions")
		if rapid.IntRange(0, 3).Draw(t, "together") > 0 {
			// in every round all connections also deliver to one mailbox that nobody has delivered to
			// before: its very first messages arrive at the same instant
			for si := range c.Sessions {
				for ti := range c.Sessions[si] {
					c.Sessions[si][ti].Rcpts = append(c.Sessions[si][ti].Rcpts, fmt.Sprintf("fresh%d@a.test", ti))
				}
			}
		}
		return c
	},
	Run: func(c PCase) *hx.Outcome {
		o := &hx.Outcome{}
		cfg := hx.DefaultCfg()
		cfg.Backend, cfg.Naming, cfg.NoHTTP = c.Backend, c.Naming, true
		w, err := hx.NewWorld(cfg)
		if err != nil {
			o.Failf(pid+":harness", "world: %v", err)
			return o
		}
		defer w.Close()
		acked, problems := hx.RunParallel(w, c.Sessions, c.Barrier)
		for _, p := range problems {
			o.Failf(pid+":parallel-session", "%s", p)
		}
		if o.Failed() {
			return o
		}
		model := hx.NewEModel()
		for _, e := range acked {
			model.Add(e)
		}
		hx.SortForUnordered(w.Store, model)
		if err := hx.CmpE2E(w.Store, model, nil); err != nil {
			o.Failf(pid+":parallel-store-differs", "[%s, %s naming, %d connections, barrier=%v] after all connections finished: %v", c.Backend, c.Naming, len(c.Sessions), c.Barrier, err)
		}
		// two connections delivering to one mailbox in the same round
		for r := 0; r < 3 && !o.NonTrivial; r++ {
			seen := map[string]int{}
			for _, s := range c.Sessions {
				if r < len(s) {
					for _, rc := range s[r].Rcpts {
						seen[rc]++
						if seen[rc] >= 2 {
							o.NonTrivial = true
						}
					}
				}
			}
		}
		o.Class(fmt.Sprintf("backend %s", c.Backend))
		if c.Barrier {
			o.Class("final dots released together")
		}
		return o
	},
}

// ---- limits: the same accounting when the store has a cap and a size limit ----

// LCase: single-recipient transactions of given body sizes into three mailboxes of a memory
// store with a per-mailbox cap and a total size limit.
type LCase struct {
	Cap   int      `json:"cap"`
	MaxKB int      `json:"maxkb"`
	Txns  [][2]int `json:"txns"` // (mailbox index, body size)
}

var propLimits = hx.Prop[LCase]{
	ID: pid, Name: "limits",
	Rule: "memory store with cap {0,2,3} and size limit {0,2,4} KiB; 8-60 SMTP transactions with one recipient each (3 mailboxes, bodies 0-1200 bytes); " +
		"after every acknowledged transaction the mailboxes must hold exactly what the documented limits leave of the deliveries so far (the cap's " +
		"oldest-first eviction in the recipient's mailbox, then the globally oldest while the total exceeds the limit; ids from the stored events, sizes as the " +
		"stored messages report them): the recipient gains its message and no other mailbox changes except by those rules; non-trivial = both limits set and at least five " +
		"cap evictions happened; distinct = distinct case JSON",
	Quick: 60, Thorough: 600,
	Gen: func(t *rapid.T) LCase {
		c := LCase{Cap: rapid.SampledFrom([]int{0, 2, 2, 3}).Draw(t, "cap"), MaxKB: rapid.SampledFrom([]int{0, 2, 4, 4}).Draw(t, "maxkb")}
		n := rapid.IntRange(8, 60).Draw(t, "n")
		for i := 0; i < n; i++ {
			c.Txns = append(c.Txns, [2]int{rapid.SampledFrom([]int{0, 0, 0, 1, 2}).Draw(t, "box"), rapid.SampledFrom([]int{0, 100, 300, 600, 1200}).Draw(t, "size")})
		}
		return c
	},
	Run: func(c LCase) *hx.Outcome {
		o := &hx.Outcome{}
		cfg := hx.DefaultCfg()
		cfg.Backend, cfg.Cap, cfg.MaxKB, cfg.NoHTTP = "mem", c.Cap, c.MaxKB, true
		type sev struct {
			box, id string
			size    int64
		}
		var mu sync.Mutex
		var stored []sev
		cfg.PreHost = func(h *extension.Host) {
			h.Events.AfterMessageStored.AddListener("c01-limits", func(m event.MessageMetadata) {
				mu.Lock()
				stored = append(stored, sev{m.Mailbox, m.ID, m.Size})
				mu.Unlock()
			})
		}
		w, err := hx.NewWorld(cfg)
		if err != nil {
			o.Failf(pid+":harness", "world: %v", err)
			return o
		}
		defer w.Close()
		cl, _, err := w.DialSMTP()
		if err != nil {
			o.Failf(pid+":harness", "dial: %v", err)
			return o
		}
		defer cl.Close()
		if r, err := cl.Cmd("EHLO c.test"); err != nil || r.Code != 250 {
			o.Failf(pid+":harness", "EHLO %v %v", r, err)
			return o
		}
		model := hx.NewModel(c.Cap, int64(c.MaxKB)*1024)
		boxes := []string{"l0", "l1", "l2"}
		capEvictions := 0
		for k, x := range c.Txns {
			box := boxes[x[0]]
			for _, s := range []string{"MAIL FROM:<s@a.test>", "RCPT TO:<" + box + "@a.test>", "DATA"} {
				if r, err := cl.Cmd(s); err != nil || (r.Class() != 2 && r.Code != 354) {
					o.Failf(pid+":harness", "txn %d: %q: %v %v", k, s, r, err)
					return o
				}
			}
			data := []byte(fmt.Sprintf("Subject: limits %d\r\n\r\n%s\r\n", k, strings.Repeat("x", x[1])))
			if r, err := cl.Data(data); err != nil || r.Code != 250 {
				o.Failf(pid+":limits-refused", "txn %d: a %d-byte message was answered %v (err %v)", k, len(data), r, err)
				return o
			}
			// the stored event tells the id and the size the store accounts for
			var e sev
			for i := 0; ; i++ {
				mu.Lock()
				n := len(stored)
				if n > k {
					e = stored[k]
				}
				mu.Unlock()
				if n > k {
					break
				}
				if i > 5000 {
					o.Failf(pid+":limits-no-event", "txn %d: acknowledged with 250 but no stored event arrived within 5 s", k)
					return o
				}
				time.Sleep(time.Millisecond)
			}
			if e.box != box {
				o.Failf(pid+":limits-wrong-mailbox", "txn %d for %q produced a stored event for mailbox %q", k, box, e.box)
				return o
			}
			before := len(model.List(box))
			// the store accounts the stored source (trace headers included), which is what Size() of
			// the stored message says; the event carries the size of the transmitted data only
			size := e.size + 160
			if sm, gerr := w.Store.GetMessage(box, e.id); gerr == nil && sm != nil {
				size = sm.Size()
			}
			if _, ierr := model.Add(&hx.MMsg{Mailbox: box, ID: e.id, Body: make([]byte, size)}); ierr != nil {
				o.Failf(pid+":limits-id-reuse", "txn %d: %v", k, ierr)
				return o
			}
			if c.Cap > 0 && before >= c.Cap {
				capEvictions++
			}
			for _, b := range boxes {
				got, err := w.Store.GetMessages(b)
				if err != nil {
					o.Failf(pid+":harness", "GetMessages: %v", err)
					return o
				}
				var gi, wi []string
				for _, m := range got {
					gi = append(gi, m.ID())
				}
				for _, m := range model.List(b) {
					wi = append(wi, m.ID)
				}
				if strings.Join(gi, ",") != strings.Join(wi, ",") {
					o.Failf(pid+":limits-store-differs", "[mem cap=%d maxkb=%d] after transaction %d (to %q, %d bytes of data): mailbox %q holds %v, the documented limits leave %v", c.Cap, c.MaxKB, k, box, e.size, b, gi, wi)
					return o
				}
			}
		}
		o.NonTrivial = c.Cap > 0 && c.MaxKB > 0 && capEvictions >= 5
		o.Class(fmt.Sprintf("cap %d maxkb %d", c.Cap, c.MaxKB))
		return o
	},
}

func TestProp(t *testing.T)    { prop.Check(t); propParallel.Check(t); propLimits.Check(t) }
func TestRegress(t *testing.T) { prop.Regress(t); propParallel.Regress(t); propLimits.Regress(t) }
func TestReplay(t *testing.T) {
	if *hx.ReplayPath == "" {
		t.Skip("no -replay")
	}
	if !prop.Replay(t, *hx.ReplayPath) && !propParallel.Replay(t, *hx.ReplayPath) && !propLimits.Replay(t, *hx.ReplayPath) {
		t.Fatalf("no prop matches %s", *hx.ReplayPath)
	}
}
func TestMain(m *testing.M) { hx.Main(m) }
