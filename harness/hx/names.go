package hx

import (
	"fmt"
	"strings"
	"sync"

	"github.com/inbucket/inbucket/v3/pkg/stringutil"
)

// Plain and special mailbox names that can receive mail (a local part may contain any of
// !#$%&'*+-/=?^_`{|}~ and, in full naming, a domain).
var SpecialNames = []string{
	"user", "a.b", "x@example.com", "x@[1.2.3.4]", "o'brien", "50%off", "a#b", "q?r", "a&b=c",
	"{curly}", "pipe|name", "ti~lde", "back`tick", "dollar$", "ex!cl", "ca^ret", "st*ar", "un_der",
	"x@sub.example.org", "0", "-dash",
	// a literal percent sign followed by two hex digits must survive exactly one URL decoding
	"x%41y", "a%2Fb", "p%25q",
}

var (
	collOnce sync.Once
	bucket3  []string // names sharing the first 3 hex digits of their hash (same lock, same level-1 dir)
	bucket6  []string // names sharing the first 6 hex digits (same level-2 dir)
)

func findCollisions() {
	by3 := map[string][]string{}
	by6 := map[string][]string{}
	for i := 0; i < 20000 && (bucket3 == nil || bucket6 == nil); i++ {
		n := fmt.Sprintf("m%d", i)
		h := stringutil.HashMailboxName(n)
		if bucket3 == nil {
			by3[h[:3]] = append(by3[h[:3]], n)
			if len(by3[h[:3]]) == 3 {
				bucket3 = by3[h[:3]]
			}
		}
		if bucket6 == nil {
			by6[h[:6]] = append(by6[h[:6]], n)
			if len(by6[h[:6]]) == 2 {
				bucket6 = by6[h[:6]]
			}
		}
	}
}

// LongMates are two distinct names of more than 64 bytes that share their first 64 bytes (a
// full-length local part on two domains): whatever derives a key from a name must use all of it.
func LongMates() []string {
	l := strings.Repeat("l", 64)
	return []string{l + "@alpha.example.com", l + "@bravo.example.com"}
}

// Bucket3 returns three names whose hashes share the first 12 bits.
func Bucket3() []string { collOnce.Do(findCollisions); return bucket3 }

// Bucket6 returns two names whose hashes share the first 24 bits (may be nil if none found).
func Bucket6() []string { collOnce.Do(findCollisions); return bucket6 }

// NamePool returns the full pool: specials, bucket mates.
func NamePool() []string {
	p := append([]string{}, SpecialNames...)
	p = append(p, Bucket3()...)
	p = append(p, Bucket6()...)
	return p
}

var (
	sibOnce  sync.Once
	siblings []string
)

// Siblings returns three names whose hashes share the first three hex digits (one level-1
// directory of the file store) but differ pairwise in the fourth.
func Siblings() []string {
	sibOnce.Do(func() {
		by3 := map[string][]string{}
		for i := 0; i < 200000 && siblings == nil; i++ {
			n := fmt.Sprintf("s%d", i)
			h := stringutil.HashMailboxName(n)
			ok := true
			for _, o := range by3[h[:3]] {
				if stringutil.HashMailboxName(o)[3] == h[3] {
					ok = false
				}
			}
			if ok {
				by3[h[:3]] = append(by3[h[:3]], n)
				if len(by3[h[:3]]) == 3 {
					siblings = by3[h[:3]]
				}
			}
		}
	})
	return siblings
}
