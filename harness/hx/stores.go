package hx

import (
	"fmt"
	"os"
	"time"

	"github.com/inbucket/inbucket/v3/pkg/config"
	"github.com/inbucket/inbucket/v3/pkg/extension"
	"github.com/inbucket/inbucket/v3/pkg/storage"
	"github.com/inbucket/inbucket/v3/pkg/storage/file"
	"github.com/inbucket/inbucket/v3/pkg/storage/mem"
)

// BaseTime is the fixed reference for generated message dates.
var BaseTime = time.Date(2024, 3, 1, 12, 0, 0, 0, time.UTC)

// TempDir creates a scratch directory; the caller removes it.
func TempDir() string {
	d, err := os.MkdirTemp(os.Getenv("VERIF_TMP"), "verif-")
	if err != nil {
		panic(err)
	}
	return d
}

// storage.FromConfig (used by server.FullAssembly) looks the back-ends up here; cmd/inbucket
// registers the same two in its init.
func init() {
	storage.Constructors["file"] = file.New
	storage.Constructors["memory"] = mem.New
}

// NewMem builds a memory store.
func NewMem(host *extension.Host, cap int, maxKB int) storage.Store {
	params := map[string]string{}
	if maxKB > 0 {
		params["maxkb"] = fmt.Sprint(maxKB)
	}
	s, err := mem.New(config.Storage{Type: "memory", Params: params, MailboxMsgCap: cap}, host)
	if err != nil {
		panic(err)
	}
	return s
}

// NewFile builds (or re-opens) a file store on dir.
func NewFile(host *extension.Host, dir string, cap int) storage.Store {
	s, err := file.New(config.Storage{Type: "file", Params: map[string]string{"path": dir}, MailboxMsgCap: cap}, host)
	if err != nil {
		panic(err)
	}
	return s
}
