package hx

import (
	"reflect"
	"unsafe"

	"github.com/gorilla/mux"
	"github.com/inbucket/inbucket/v3/pkg/server/web"
)

// pristineRouter is web.Router exactly as the web package initialised it, captured before
// anything registered a route: whatever configuration that initialiser applies (or no longer
// applies) is what every world of this process gets.  A harness that built its own router
// "the way the package does" would keep passing after the package stopped doing it.
var pristineRouter = *web.Router

// FreshRouter returns a route-less copy of the package's initial router.
func FreshRouter() *mux.Router {
	c := pristineRouter
	f := reflect.ValueOf(&c).Elem().FieldByName("namedRoutes")
	if f.IsValid() {
		reflect.NewAt(f.Type(), unsafe.Pointer(f.UnsafeAddr())).Elem().Set(reflect.MakeMap(f.Type()))
	}
	return &c
}
