package hx

import (
	"bytes"
	"errors"
	"fmt"
	"io"
	"net/mail"
	"sort"
	"strings"
	"time"

	"github.com/inbucket/inbucket/v3/pkg/extension/event"
	"github.com/inbucket/inbucket/v3/pkg/message"
	"github.com/inbucket/inbucket/v3/pkg/storage"
)

// Addr is a serialisable mail address.
type Addr struct {
	Name    string `json:"n,omitempty"`
	Address string `json:"a,omitempty"`
}

func (a *Addr) Mail() *mail.Address {
	if a == nil {
		return nil
	}
	return &mail.Address{Name: a.Name, Address: a.Address}
}

func addrEq(a *mail.Address, b *mail.Address) bool {
	if a == nil || b == nil {
		return a == nil && b == nil
	}
	return a.Name == b.Name && a.Address == b.Address
}

func addrsEq(a, b []*mail.Address) bool {
	if len(a) != len(b) {
		return false
	}
	for i := range a {
		if !addrEq(a[i], b[i]) {
			return false
		}
	}
	return true
}

// MMsg is a message in the reference model.
type MMsg struct {
	Mailbox string
	ID      string
	From    *mail.Address
	To      []*mail.Address
	Date    time.Time
	Subject string
	Body    []byte
	Seen    bool
	Arrival int // global arrival number
}

// Model is the reference: mailbox name -> arrival-ordered list of messages.
type Model struct {
	Boxes    map[string][]*MMsg
	Issued   map[string]map[string]bool // every id ever issued per mailbox
	Order    map[string][]string        // ids per mailbox in the order they were issued
	Cap      int                        // per-mailbox cap, 0 = none
	MaxBytes int64                      // total size limit, 0 = none
	arrival  int
}

func NewModel(cap int, maxBytes int64) *Model {
	return &Model{Boxes: map[string][]*MMsg{}, Issued: map[string]map[string]bool{}, Order: map[string][]string{}, Cap: cap, MaxBytes: maxBytes}
}

// Add records a delivery whose id the store reported; it returns the messages the limits
// evict (cap first, then global size, oldest first) and an error when the id was issued before.
func (m *Model) Add(msg *MMsg) (evicted []*MMsg, err error) {
	if m.Issued[msg.Mailbox] == nil {
		m.Issued[msg.Mailbox] = map[string]bool{}
	}
	if m.Issued[msg.Mailbox][msg.ID] {
		err = fmt.Errorf("id %q was already issued for mailbox %q", msg.ID, msg.Mailbox)
	}
	if msg.ID == "" {
		err = fmt.Errorf("empty id issued for mailbox %q", msg.Mailbox)
	}
	m.Issued[msg.Mailbox][msg.ID] = true
	m.Order[msg.Mailbox] = append(m.Order[msg.Mailbox], msg.ID)
	m.arrival++
	msg.Arrival = m.arrival
	m.Boxes[msg.Mailbox] = append(m.Boxes[msg.Mailbox], msg)
	if m.Cap > 0 {
		for len(m.Boxes[msg.Mailbox]) > m.Cap {
			evicted = append(evicted, m.Boxes[msg.Mailbox][0])
			m.Boxes[msg.Mailbox] = m.Boxes[msg.Mailbox][1:]
		}
	}
	if m.MaxBytes > 0 {
		for m.TotalBytes() > m.MaxBytes {
			o := m.oldest()
			if o == nil {
				break
			}
			evicted = append(evicted, o)
			m.removeMsg(o)
		}
	}
	return
}

func (m *Model) TotalBytes() int64 {
	var n int64
	for _, l := range m.Boxes {
		for _, x := range l {
			n += int64(len(x.Body))
		}
	}
	return n
}

func (m *Model) oldest() *MMsg {
	var o *MMsg
	for _, l := range m.Boxes {
		for _, x := range l {
			if o == nil || x.Arrival < o.Arrival {
				o = x
			}
		}
	}
	return o
}

func (m *Model) removeMsg(x *MMsg) {
	l := m.Boxes[x.Mailbox]
	for i := range l {
		if l[i] == x {
			m.Boxes[x.Mailbox] = append(append([]*MMsg{}, l[:i]...), l[i+1:]...)
			return
		}
	}
}

// Get returns the live message with that id, "latest" meaning the newest.
func (m *Model) Get(mailbox, id string) *MMsg {
	l := m.Boxes[mailbox]
	if id == "latest" {
		if len(l) == 0 {
			return nil
		}
		return l[len(l)-1]
	}
	for _, x := range l {
		if x.ID == id {
			return x
		}
	}
	return nil
}

func (m *Model) List(mailbox string) []*MMsg { return m.Boxes[mailbox] }

func (m *Model) MarkSeen(mailbox, id string) bool {
	for _, x := range m.Boxes[mailbox] {
		if x.ID == id {
			x.Seen = true
			return true
		}
	}
	return false
}

func (m *Model) Remove(mailbox, id string) *MMsg {
	for _, x := range m.Boxes[mailbox] {
		if x.ID == id {
			m.removeMsg(x)
			return x
		}
	}
	return nil
}

func (m *Model) Purge(mailbox string) []*MMsg {
	l := m.Boxes[mailbox]
	delete(m.Boxes, mailbox)
	return l
}

// NonEmpty returns the sorted names of non-empty mailboxes.
func (m *Model) NonEmpty() []string {
	var n []string
	for k, l := range m.Boxes {
		if len(l) > 0 {
			n = append(n, k)
		}
	}
	sort.Strings(n)
	return n
}

// IssuedList returns all ids ever issued for mailbox in issue order.
func (m *Model) IssuedList(mailbox string) []string { return m.Order[mailbox] }

// IssueIndex returns the position of id in the issue order of mailbox, -1 if never issued.
func (m *Model) IssueIndex(mailbox, id string) int {
	for i, x := range m.Order[mailbox] {
		if x == id {
			return i
		}
	}
	return -1
}

// NewDelivery builds the storage.Message handed to Store.AddMessage.
func NewDelivery(mailbox string, from *mail.Address, to []*mail.Address, date time.Time, subject string, body []byte) storage.Message {
	return &message.Delivery{
		Meta: event.MessageMetadata{
			Mailbox: mailbox, From: from, To: to, Date: date, Subject: subject, Size: int64(len(body)),
		},
		Reader: bytes.NewReader(body),
	}
}

// ReadSource returns the full content of a stored message.
func ReadSource(sm storage.Message) ([]byte, error) {
	r, err := sm.Source()
	if err != nil {
		return nil, err
	}
	defer r.Close()
	return io.ReadAll(r)
}

// CmpMsg compares a stored message with the model's; it returns "" when equal.
func CmpMsg(sm storage.Message, mm *MMsg, withContent bool) string {
	var d []string
	if sm == nil {
		return "nil message"
	}
	if sm.Mailbox() != mm.Mailbox {
		d = append(d, fmt.Sprintf("mailbox %q want %q", sm.Mailbox(), mm.Mailbox))
	}
	if sm.ID() != mm.ID {
		d = append(d, fmt.Sprintf("id %q want %q", sm.ID(), mm.ID))
	}
	if !addrEq(sm.From(), mm.From) {
		d = append(d, fmt.Sprintf("from %v want %v", sm.From(), mm.From))
	}
	if !addrsEq(sm.To(), mm.To) {
		d = append(d, fmt.Sprintf("to %v want %v", sm.To(), mm.To))
	}
	if !sm.Date().Equal(mm.Date) {
		d = append(d, fmt.Sprintf("date %v want %v", sm.Date(), mm.Date))
	}
	if sm.Subject() != mm.Subject {
		d = append(d, fmt.Sprintf("subject %q want %q", sm.Subject(), mm.Subject))
	}
	if sm.Size() != int64(len(mm.Body)) {
		d = append(d, fmt.Sprintf("size %d want %d", sm.Size(), len(mm.Body)))
	}
	if sm.Seen() != mm.Seen {
		d = append(d, fmt.Sprintf("seen %v want %v", sm.Seen(), mm.Seen))
	}
	if withContent {
		b, err := ReadSource(sm)
		if err != nil {
			d = append(d, "source: "+err.Error())
		} else if !bytes.Equal(b, mm.Body) {
			d = append(d, fmt.Sprintf("content differs (%d bytes, want %d)", len(b), len(mm.Body)))
		}
	}
	return strings.Join(d, "; ")
}

// CmpStore compares the whole observable store state with the model: every mailbox of
// universe listed and compared, and VisitMailboxes yielding exactly the non-empty mailboxes.
func CmpStore(st storage.Store, m *Model, universe []string) error {
	for _, name := range universe {
		got, err := st.GetMessages(name)
		if err != nil {
			return fmt.Errorf("GetMessages(%q): %v", name, err)
		}
		want := m.List(name)
		if len(got) != len(want) {
			return fmt.Errorf("mailbox %q lists %d messages %v, model has %d %v", name, len(got), ids(got), len(want), mids(want))
		}
		for i := range got {
			if d := CmpMsg(got[i], want[i], true); d != "" {
				return fmt.Errorf("mailbox %q message #%d: %s", name, i, d)
			}
		}
	}
	seen := map[string]int{}
	var verr error
	err := st.VisitMailboxes(func(ms []storage.Message) bool {
		if len(ms) == 0 {
			return true
		}
		name := ms[0].Mailbox()
		seen[name]++
		want := m.List(name)
		if len(ms) != len(want) {
			verr = fmt.Errorf("visit: mailbox %q has %d messages, model %d", name, len(ms), len(want))
			return true
		}
		for i := range ms {
			if d := CmpMsg(ms[i], want[i], false); d != "" {
				verr = fmt.Errorf("visit: mailbox %q message #%d: %s", name, i, d)
			}
		}
		return true
	})
	if err != nil {
		return fmt.Errorf("VisitMailboxes: %v", err)
	}
	if verr != nil {
		return verr
	}
	for _, name := range m.NonEmpty() {
		if seen[name] != 1 {
			return fmt.Errorf("visit: non-empty mailbox %q visited %d times", name, seen[name])
		}
		delete(seen, name)
	}
	for name := range seen {
		return fmt.Errorf("visit: unexpected mailbox %q", name)
	}
	return nil
}

func ids(ms []storage.Message) []string {
	var l []string
	for _, m := range ms {
		l = append(l, m.ID())
	}
	return l
}

func mids(ms []*MMsg) []string {
	var l []string
	for _, m := range ms {
		l = append(l, m.ID)
	}
	return l
}

// IsNotExist reports whether err is storage.ErrNotExist.
func IsNotExist(err error) bool { return errors.Is(err, storage.ErrNotExist) }
