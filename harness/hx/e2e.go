package hx

import (
	"bytes"
	"fmt"
	"net/mail"
	"regexp"
	"sort"
	"strings"
	"time"

	"github.com/inbucket/inbucket/v3/pkg/storage"
)

// EMsg is what the end-to-end model expects of a message delivered through SMTP.
type EMsg struct {
	Mailbox  string
	From     *mail.Address   // expected From metadata
	To       []*mail.Address // expected To metadata
	Subject  string
	Sender   string // envelope sender (Return-Path)
	Helo     string
	Data     []byte // bytes transmitted in DATA before dot-stuffing
	NotAfter time.Time
	NotBefo  time.Time
	ID       string // filled in from the store on first sight; must stay stable
	Seen     bool
}

// EModel is mailbox -> arrival-ordered expected messages.
type EModel struct {
	Boxes map[string][]*EMsg
}

func NewEModel() *EModel { return &EModel{Boxes: map[string][]*EMsg{}} }

func (m *EModel) Add(e *EMsg) { m.Boxes[e.Mailbox] = append(m.Boxes[e.Mailbox], e) }

func (m *EModel) NonEmpty() []string {
	var n []string
	for k, l := range m.Boxes {
		if len(l) > 0 {
			n = append(n, k)
		}
	}
	sort.Strings(n)
	return n
}

func (m *EModel) Count() int {
	n := 0
	for _, l := range m.Boxes {
		n += len(l)
	}
	return n
}

var traceRE = regexp.MustCompile(`^Return-Path: <([^>\r\n]*)>\r\nReceived: from ([^\r\n]*) \(\[([^\]\r\n]*)\]\) by ([^\r\n ]+)\r\n  for <([^\r\n]*)>; ([^\r\n]+)\r\n`)

// Trace is the parsed server-generated header block.
type Trace struct {
	ReturnPath, Helo, Peer, Domain, For, Stamp string
}

// SplitTrace splits a stored source into the server's trace headers and the rest.
func SplitTrace(src []byte) (Trace, []byte, bool) {
	m := traceRE.FindSubmatch(src)
	if m == nil {
		return Trace{}, nil, false
	}
	t := Trace{string(m[1]), string(m[2]), string(m[3]), string(m[4]), string(m[5]), string(m[6])}
	return t, src[len(m[0]):], true
}

// CmpE2EMsg compares one stored message with the expectation.
func CmpE2EMsg(sm storage.Message, e *EMsg) string {
	var d []string
	if sm.Mailbox() != e.Mailbox {
		d = append(d, fmt.Sprintf("mailbox %q want %q", sm.Mailbox(), e.Mailbox))
	}
	if e.ID == "" {
		e.ID = sm.ID()
	} else if sm.ID() != e.ID {
		d = append(d, fmt.Sprintf("id changed from %q to %q", e.ID, sm.ID()))
	}
	if !addrEq(sm.From(), e.From) {
		d = append(d, fmt.Sprintf("from %v want %v", sm.From(), e.From))
	}
	if !addrsEq(sm.To(), e.To) {
		d = append(d, fmt.Sprintf("to %v want %v", sm.To(), e.To))
	}
	if sm.Subject() != e.Subject {
		d = append(d, fmt.Sprintf("subject %q want %q", sm.Subject(), e.Subject))
	}
	if sm.Seen() != e.Seen {
		d = append(d, fmt.Sprintf("seen %v want %v", sm.Seen(), e.Seen))
	}
	if !e.NotBefo.IsZero() && (sm.Date().Before(e.NotBefo.Add(-2*time.Second)) || sm.Date().After(e.NotAfter.Add(2*time.Second))) {
		d = append(d, fmt.Sprintf("date %v outside delivery window [%v,%v]", sm.Date(), e.NotBefo, e.NotAfter))
	}
	src, err := ReadSource(sm)
	if err != nil {
		return strings.Join(append(d, "source: "+err.Error()), "; ")
	}
	if sm.Size() != int64(len(src)) {
		d = append(d, fmt.Sprintf("size %d but stored source has %d bytes", sm.Size(), len(src)))
	}
	tr, body, ok := SplitTrace(src)
	if !ok {
		d = append(d, fmt.Sprintf("source does not start with the trace headers: %q", trunc(src, 120)))
	} else {
		if tr.ReturnPath != e.Sender {
			d = append(d, fmt.Sprintf("Return-Path %q want %q", tr.ReturnPath, e.Sender))
		}
		if tr.For != e.Mailbox {
			d = append(d, fmt.Sprintf("Received for <%s> want <%s>", tr.For, e.Mailbox))
		}
		if e.Helo != "" && tr.Helo != e.Helo {
			d = append(d, fmt.Sprintf("Received from %q want %q", tr.Helo, e.Helo))
		}
		if !bytes.Equal(Canon(body), Canon(e.Data)) {
			d = append(d, fmt.Sprintf("content differs from transmitted data: got %q want %q", trunc(Canon(body), 80), trunc(Canon(e.Data), 80)))
		}
	}
	return strings.Join(d, "; ")
}

func trunc(b []byte, n int) []byte {
	if len(b) > n {
		return b[:n]
	}
	return b
}

// CmpE2E compares the complete store with the end-to-end model: VisitMailboxes must yield
// exactly the model's non-empty mailboxes and every listed message must match.
func CmpE2E(st storage.Store, m *EModel, extra []string) error {
	visited := map[string]int{}
	err := st.VisitMailboxes(func(ms []storage.Message) bool {
		if len(ms) > 0 {
			visited[ms[0].Mailbox()] += len(ms)
		}
		return true
	})
	if err != nil {
		return fmt.Errorf("VisitMailboxes: %v", err)
	}
	for name, n := range visited {
		if len(m.Boxes[name]) != n {
			return fmt.Errorf("mailbox %q holds %d messages, expected %d", name, n, len(m.Boxes[name]))
		}
	}
	names := append(m.NonEmpty(), extra...)
	for _, name := range names {
		want := m.Boxes[name]
		if len(want) > 0 && visited[name] != len(want) {
			return fmt.Errorf("mailbox %q: visit saw %d messages, expected %d", name, visited[name], len(want))
		}
		got, err := st.GetMessages(name)
		if err != nil {
			return fmt.Errorf("GetMessages(%q): %v", name, err)
		}
		if len(got) != len(want) {
			return fmt.Errorf("mailbox %q lists %d messages, expected %d", name, len(got), len(want))
		}
		for i := range got {
			if d := CmpE2EMsg(got[i], want[i]); d != "" {
				return fmt.Errorf("mailbox %q message #%d: %s", name, i, d)
			}
		}
	}
	return nil
}

// SortForUnordered rearranges every expected mailbox into the arrival order the store
// happens to show, matching messages by envelope sender and transmitted content; used when
// deliveries from concurrent sessions share a mailbox and their order is not determined.
func SortForUnordered(st storage.Store, m *EModel) {
	for name, want := range m.Boxes {
		got, err := st.GetMessages(name)
		if err != nil || len(got) != len(want) {
			continue
		}
		used := make([]bool, len(want))
		var re []*EMsg
		for _, g := range got {
			src, err := ReadSource(g)
			if err != nil {
				break
			}
			tr, body, ok := SplitTrace(src)
			if !ok {
				break
			}
			for i, w := range want {
				if !used[i] && w.Sender == tr.ReturnPath && bytes.Equal(Canon(body), Canon(w.Data)) {
					used[i] = true
					re = append(re, w)
					break
				}
			}
		}
		if len(re) == len(want) {
			m.Boxes[name] = re
		}
	}
}
