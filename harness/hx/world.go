package hx

import (
	"bytes"
	"context"
	"fmt"
	"log"
	"net"
	"net/http"
	"net/http/httptest"
	"os"
	"path/filepath"
	"strings"
	"sync"
	"sync/atomic"
	"time"

	"github.com/inbucket/inbucket/v3/pkg/config"
	"github.com/inbucket/inbucket/v3/pkg/extension"
	"github.com/inbucket/inbucket/v3/pkg/extension/luahost"
	"github.com/inbucket/inbucket/v3/pkg/message"
	"github.com/inbucket/inbucket/v3/pkg/msghub"
	"github.com/inbucket/inbucket/v3/pkg/policy"
	"github.com/inbucket/inbucket/v3/pkg/rest"
	"github.com/inbucket/inbucket/v3/pkg/server"
	"github.com/inbucket/inbucket/v3/pkg/server/pop3"
	"github.com/inbucket/inbucket/v3/pkg/server/smtp"
	"github.com/inbucket/inbucket/v3/pkg/server/web"
	"github.com/inbucket/inbucket/v3/pkg/storage"
	"github.com/inbucket/inbucket/v3/pkg/stringutil"
	"github.com/inbucket/inbucket/v3/pkg/webui"
	"github.com/rs/zerolog"
)

// Cfg is the generated, serialisable configuration of one world.
type Cfg struct {
	Naming          string   `json:"naming"` // local | full | domain
	DefaultAccept   bool     `json:"default_accept"`
	DefaultStore    bool     `json:"default_store"`
	AcceptDomains   []string `json:"accept,omitempty"`
	RejectDomains   []string `json:"reject,omitempty"`
	StoreDomains    []string `json:"store,omitempty"`
	DiscardDomains  []string `json:"discard,omitempty"`
	RejectOrigin    []string `json:"reject_origin,omitempty"`
	MaxRecipients   int      `json:"max_rcpt"`
	MaxMessageBytes int      `json:"max_bytes"`
	Backend         string   `json:"backend"` // mem | file
	Cap             int      `json:"cap,omitempty"`
	MaxKB           int      `json:"maxkb,omitempty"`
	MonitorHistory  int      `json:"monitor_history,omitempty"`
	BasePath        string   `json:"base_path,omitempty"`
	Lua             string   `json:"lua,omitempty"`
	SMTPForceTLS    bool     `json:"smtp_force_tls,omitempty"` // implicit-TLS SMTP listener (real TCP only)
	// Go listeners registered before / after the Lua host on the before-events.
	PreHost  func(h *extension.Host) `json:"-"`
	PostHost func(h *extension.Host) `json:"-"`
	NoHTTP   bool                    `json:"-"`
	// NetDebug sets SMTP.Debug and POP3.Debug the way the daemon's -netdebug flag does (dialogues
	// are echoed to stdout); set by a check's Run.
	NetDebug bool `json:"-"`
	// Assembled builds the world with server.FullAssembly (the function cmd/inbucket calls) instead
	// of wiring the components here: store from storage.FromConfig, Lua host from a script file,
	// routes on the package's router, servers as the assembly parameterises them.  What the world
	// exposes is then read back from the assembled services.  Ignored when PreHost is set (a
	// listener in front of the Lua host cannot be had from the assembly).
	Assembled bool `json:"assembled,omitempty"`
	// Domain is the name the servers greet with (default inbucket.test); never part of a case.
	Domain string `json:"-"`
	// SMTPTimeout / POP3Timeout are the idle timeouts (default 60s), set by a check's Run.
	SMTPTimeout string `json:"-"`
	POP3Timeout string `json:"-"`
}

// DefaultCfg accepts and stores everything, local naming, mem store.
func DefaultCfg() Cfg {
	return Cfg{Naming: "local", DefaultAccept: true, DefaultStore: true, MaxRecipients: 200, MaxMessageBytes: 10240000, Backend: "mem", MonitorHistory: 30}
}

// World is one fully wired inbucket instance (what server.FullAssembly builds), without
// network listeners unless StartTCP is used.
type World struct {
	Cfg     Cfg
	Conf    *config.Root
	Host    *extension.Host
	Store   storage.Store
	Policy  *policy.Addressing
	Manager *message.StoreManager
	Hub     *msghub.Hub
	SMTP    *smtp.Server
	POP3    *pop3.Server
	HTTP    *httptest.Server
	HTTPLog *SyncBuffer // the HTTP server's error log ("http: panic serving ...")
	Lua     *luahost.Host
	Dir     string
	Ctx     context.Context
	Cancel  context.CancelFunc
	hubDone chan struct{}
	sid     atomic.Int32
	wg      sync.WaitGroup
}

var envMu sync.Mutex

func clearInbucketEnv() {
	for _, kv := range os.Environ() {
		if strings.HasPrefix(kv, "INBUCKET_") {
			os.Unsetenv(kv[:strings.IndexByte(kv, '=')])
		}
	}
}

// ProcessCfg turns cfg into a config.Root the way the server does at start-up: through
// environment variables and config.Process.
func ProcessCfg(c Cfg) (*config.Root, error) {
	envMu.Lock()
	defer envMu.Unlock()
	clearInbucketEnv()
	set := func(k, v string) { os.Setenv("INBUCKET_"+k, v) }
	setList := func(k string, l []string) {
		if len(l) > 0 {
			set(k, strings.Join(l, ","))
		}
	}
	if c.Naming != "" {
		set("MAILBOXNAMING", c.Naming)
	}
	set("SMTP_DEFAULTACCEPT", fmt.Sprint(c.DefaultAccept))
	set("SMTP_DEFAULTSTORE", fmt.Sprint(c.DefaultStore))
	setList("SMTP_ACCEPTDOMAINS", c.AcceptDomains)
	setList("SMTP_REJECTDOMAINS", c.RejectDomains)
	setList("SMTP_STOREDOMAINS", c.StoreDomains)
	setList("SMTP_DISCARDDOMAINS", c.DiscardDomains)
	setList("SMTP_REJECTORIGINDOMAINS", c.RejectOrigin)
	set("SMTP_MAXRECIPIENTS", fmt.Sprint(c.MaxRecipients))
	set("SMTP_MAXMESSAGEBYTES", fmt.Sprint(c.MaxMessageBytes))
	if c.SMTPForceTLS {
		cert, key := TLSFiles()
		set("SMTP_TLSENABLED", "true")
		set("SMTP_FORCETLS", "true")
		set("SMTP_TLSCERT", cert)
		set("SMTP_TLSPRIVKEY", key)
	}
	st, pt := "60s", "60s"
	if c.SMTPTimeout != "" {
		st = c.SMTPTimeout
	}
	if c.POP3Timeout != "" {
		pt = c.POP3Timeout
	}
	set("SMTP_TIMEOUT", st)
	set("POP3_TIMEOUT", pt)
	dom := c.Domain
	if dom == "" {
		dom = "inbucket.test"
	}
	set("SMTP_DOMAIN", dom)
	set("POP3_DOMAIN", dom)
	set("SMTP_ADDR", "127.0.0.1:0")
	set("POP3_ADDR", "127.0.0.1:0")
	set("WEB_MONITORHISTORY", fmt.Sprint(c.MonitorHistory))
	set("WEB_UIDIR", "/nonexistent-ui")
	if c.BasePath != "" {
		set("WEB_BASEPATH", c.BasePath)
	}
	set("STORAGE_MAILBOXMSGCAP", fmt.Sprint(c.Cap))
	set("STORAGE_RETENTIONPERIOD", "0")
	conf, err := config.Process()
	clearInbucketEnv()
	if err != nil {
		return nil, fmt.Errorf("config.Process: %v", err)
	}
	return conf, nil
}

// NewWorld builds a world from cfg. Domain lists travel through the environment and
// config.Process so that the documented lower-casing of configuration is exercised.
func NewWorld(c Cfg) (*World, error) {
	w := &World{Cfg: c}
	conf, err := ProcessCfg(c)
	if err != nil {
		return nil, err
	}
	if c.NetDebug {
		conf.SMTP.Debug, conf.POP3.Debug = true, true
	}
	w.Conf = conf
	if c.Assembled && c.PreHost == nil {
		return w, w.assemble(c, conf)
	}
	w.Host = extension.NewHost()
	if c.PreHost != nil {
		c.PreHost(w.Host)
	}
	if c.Lua != "" {
		lh, err := luahost.NewFromReader(zerolog.Nop(), w.Host, strings.NewReader(c.Lua), "generated.lua")
		if err != nil {
			return nil, fmt.Errorf("lua: %v", err)
		}
		w.Lua = lh
	}
	if c.PostHost != nil {
		c.PostHost(w.Host)
	}
	if c.Backend == "file" {
		w.Dir = TempDir()
		w.Store = NewFile(w.Host, w.Dir, c.Cap)
	} else {
		w.Store = NewMem(w.Host, c.Cap, c.MaxKB)
	}
	w.Policy = &policy.Addressing{Config: conf}
	w.Hub = msghub.New(conf.Web.MonitorHistory, w.Host)
	w.Manager = &message.StoreManager{AddrPolicy: w.Policy, Store: w.Store, ExtHost: w.Host}
	w.Ctx, w.Cancel = context.WithCancel(context.Background())
	w.hubDone = make(chan struct{})
	go func() { w.Hub.Start(w.Ctx); close(w.hubDone) }()
	if !c.NoHTTP {
		web.Router = FreshRouter() // the package's own initial router, without routes
		prefix := stringutil.MakePathPrefixer(conf.Web.BasePath)
		webui.SetupRoutes(web.Router.PathPrefix(prefix("/serve/")).Subrouter())
		rest.SetupRoutes(web.Router.PathPrefix(prefix("/api/")).Subrouter())
		web.NewServer(conf, w.Manager, w.Hub)
		w.HTTP, err = newHTTPServer(web.Router)
		if err != nil {
			return nil, err
		}
		w.HTTPLog = &SyncBuffer{}
		w.HTTP.Config.ErrorLog = log.New(w.HTTPLog, "", 0)
		w.HTTP.Start()
	}
	w.SMTP = smtp.NewServer(conf.SMTP, w.Manager, w.Policy, w.Host)
	w.POP3, err = pop3.NewServer(conf.POP3, w.Store, pop3.WithAddressPolicy(w.Policy)) // as FullAssembly does
	if err != nil {
		return nil, err
	}
	return w, nil
}

// Close stops the hub and HTTP server, waits for sessions and removes the scratch dir.
// The hub is synced first so that no event goroutine is left behind to hit a stopped hub.
// newHTTPServer is httptest.NewUnstartedServer with patience: under load (thousands of short
// connections a second from fuzzing and the shutdown checks of parallel shards) the kernel can
// run out of local ports for a moment; httptest panics then, this waits for ports to come back.
func newHTTPServer(h http.Handler) (*httptest.Server, error) {
	var l net.Listener
	var err error
	for deadline := time.Now().Add(3 * time.Minute); ; {
		if l, err = net.Listen("tcp", "127.0.0.1:0"); err == nil {
			break
		}
		if time.Now().After(deadline) {
			return nil, fmt.Errorf("no local port for the HTTP server in 3 minutes: %v", err)
		}
		time.Sleep(250 * time.Millisecond)
	}
	return &httptest.Server{Listener: l, Config: &http.Server{Handler: h}}, nil
}

// assemble fills w from server.FullAssembly(conf).
func (w *World) assemble(c Cfg, conf *config.Root) error {
	w.Dir = TempDir()
	if c.Backend == "file" {
		conf.Storage.Type, conf.Storage.Params = "file", map[string]string{"path": w.Dir}
	} else {
		conf.Storage.Type, conf.Storage.Params = "memory", map[string]string{}
		if c.MaxKB > 0 {
			conf.Storage.Params["maxkb"] = fmt.Sprint(c.MaxKB)
		}
	}
	if c.Lua != "" {
		conf.Lua.Path = filepath.Join(w.Dir, "generated.lua")
		if err := os.WriteFile(conf.Lua.Path, []byte(c.Lua), 0o600); err != nil {
			return err
		}
	}
	web.Router = FreshRouter()
	svc, err := server.FullAssembly(conf)
	if err != nil {
		return fmt.Errorf("FullAssembly: %v", err)
	}
	mgr, ok := svc.SMTPServer.VerifManager().(*message.StoreManager)
	if !ok {
		return fmt.Errorf("the assembled SMTP server delivers to a %T, not a *message.StoreManager", svc.SMTPServer.VerifManager())
	}
	w.Host, w.Hub, w.Lua = svc.ExtHost, svc.MsgHub, svc.LuaHost
	w.Manager, w.Store, w.Policy = mgr, mgr.Store, mgr.AddrPolicy
	w.SMTP, w.POP3 = svc.SMTPServer, svc.POP3Server
	if c.PostHost != nil {
		c.PostHost(w.Host)
	}
	w.Ctx, w.Cancel = context.WithCancel(context.Background())
	w.hubDone = make(chan struct{})
	go func() { w.Hub.Start(w.Ctx); close(w.hubDone) }()
	if !c.NoHTTP {
		var err error
		if w.HTTP, err = newHTTPServer(web.Router); err != nil {
			return err
		}
		w.HTTPLog = &SyncBuffer{}
		w.HTTP.Config.ErrorLog = log.New(w.HTTPLog, "", 0)
		w.HTTP.Start()
	}
	return nil
}

func (w *World) Close() {
	w.wg.Wait()
	w.Quiesce()
	if w.HTTP != nil {
		w.HTTP.Close()
	}
	w.Cancel()
	select {
	case <-w.hubDone:
	case <-time.After(10 * time.Second):
		// the hub goroutine is stuck inside a listener (the check that caused or found this has
		// reported it already): abandon it rather than wedge the whole run
	}
	if w.Dir != "" {
		_ = os.RemoveAll(w.Dir)
	}
}

// Quiesce waits until asynchronously emitted events have reached the hub.
func (w *World) Quiesce() {
	done := make(chan struct{})
	go func() {
		for i := 0; i < 3; i++ {
			time.Sleep(time.Millisecond)
			w.Hub.Sync()
		}
		close(done)
	}()
	select {
	case <-done:
	case <-time.After(10 * time.Second):
	}
}

// pipeConn gives net.Pipe ends a TCP-looking remote address.
type pipeConn struct {
	net.Conn
}

func (p pipeConn) RemoteAddr() net.Addr {
	return &net.TCPAddr{IP: net.IPv4(127, 0, 0, 1), Port: 54321}
}

// ServeSMTP starts an SMTP session on one end of a pipe and returns the client end plus a
// channel closed when the session goroutine has returned.
func (w *World) ServeSMTP() (net.Conn, <-chan struct{}) {
	srv, cli := net.Pipe()
	done := make(chan struct{})
	id := int(w.sid.Add(1))
	w.wg.Add(1)
	go func() {
		defer w.wg.Done()
		defer close(done)
		w.SMTP.VerifServe(id, pipeConn{srv})
	}()
	return cli, done
}

// ServePOP3 does the same for POP3.
func (w *World) ServePOP3() (net.Conn, <-chan struct{}) {
	srv, cli := net.Pipe()
	done := make(chan struct{})
	id := int(w.sid.Add(1))
	w.wg.Add(1)
	go func() {
		defer w.wg.Done()
		defer close(done)
		w.POP3.VerifServe(id, pipeConn{srv})
	}()
	return cli, done
}

// MailboxFor is the server's own naming function.
func (w *World) MailboxFor(addr string) (string, error) { return w.Manager.MailboxForAddress(addr) }

// SyncBuffer is a goroutine-safe bytes.Buffer.
type SyncBuffer struct {
	mu sync.Mutex
	b  bytes.Buffer
}

func (s *SyncBuffer) Write(p []byte) (int, error) {
	s.mu.Lock()
	defer s.mu.Unlock()
	return s.b.Write(p)
}

func (s *SyncBuffer) String() string {
	s.mu.Lock()
	defer s.mu.Unlock()
	return s.b.String()
}
