package hx

import (
	"context"
	"time"

	"github.com/inbucket/inbucket/v3/pkg/config"
	"github.com/inbucket/inbucket/v3/pkg/storage"
)

// ScanCutoff picks, deterministically from the model state, a cutoff instant near
// BaseTime+k seconds that no live message's date is within 30 s of, so that the scanner's
// own reading of the clock cannot change which messages are expired.
func ScanCutoff(m *Model, k int) time.Time {
	cut := BaseTime.Add(time.Duration(k) * time.Second)
	for tries := 0; tries < 1000; tries++ {
		clash := false
		for _, l := range m.Boxes {
			for _, x := range l {
				d := x.Date.Sub(cut)
				if d < 0 {
					d = -d
				}
				if d < 30*time.Second {
					clash = true
				}
			}
		}
		if !clash {
			return cut
		}
		cut = cut.Add(61 * time.Second)
	}
	return cut
}

// DoScan runs one retention scan that expires everything dated before cutoff and applies
// the same rule to the model; it returns the scan's error.
func DoScan(st storage.Store, m *Model, cutoff time.Time) ([]*MMsg, error) {
	period := time.Since(cutoff)
	rs := storage.NewRetentionScanner(config.Storage{RetentionPeriod: period, RetentionSleep: 0}, st)
	err := rs.DoScan(context.Background())
	var gone []*MMsg
	for name, l := range m.Boxes {
		for _, x := range append([]*MMsg{}, l...) {
			if x.Date.Before(cutoff) {
				gone = append(gone, x)
				m.Remove(name, x.ID)
			}
		}
	}
	return gone, err
}
