package hx

import (
	"crypto/ecdsa"
	"crypto/elliptic"
	"crypto/rand"
	"crypto/x509"
	"crypto/x509/pkix"
	"encoding/pem"
	"math/big"
	"net"
	"os"
	"path/filepath"
	"sync"
	"time"
)

var (
	certOnce          sync.Once
	certFile, keyFile string
)

// TLSFiles returns a self-signed certificate and key for 127.0.0.1, generated once per
// process into a scratch directory (removed by the OS temp cleaner; a few hundred bytes).
func TLSFiles() (cert, key string) {
	certOnce.Do(func() {
		priv, err := ecdsa.GenerateKey(elliptic.P256(), rand.Reader)
		if err != nil {
			panic(err)
		}
		tpl := &x509.Certificate{
			SerialNumber: big.NewInt(1), Subject: pkix.Name{CommonName: "inbucket.test"},
			NotBefore: time.Now().Add(-time.Hour), NotAfter: time.Now().Add(24 * time.Hour),
			KeyUsage: x509.KeyUsageDigitalSignature, ExtKeyUsage: []x509.ExtKeyUsage{x509.ExtKeyUsageServerAuth},
			IPAddresses: []net.IP{net.IPv4(127, 0, 0, 1)}, DNSNames: []string{"localhost"},
		}
		der, err := x509.CreateCertificate(rand.Reader, tpl, tpl, &priv.PublicKey, priv)
		if err != nil {
			panic(err)
		}
		kb, err := x509.MarshalECPrivateKey(priv)
		if err != nil {
			panic(err)
		}
		dir := TempDir()
		certFile, keyFile = filepath.Join(dir, "cert.pem"), filepath.Join(dir, "key.pem")
		_ = os.WriteFile(certFile, pem.EncodeToMemory(&pem.Block{Type: "CERTIFICATE", Bytes: der}), 0o600)
		_ = os.WriteFile(keyFile, pem.EncodeToMemory(&pem.Block{Type: "EC PRIVATE KEY", Bytes: kb}), 0o600)
	})
	return certFile, keyFile
}
