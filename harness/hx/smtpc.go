package hx

import (
	"bufio"
	"bytes"
	"fmt"
	"net"
	"net/textproto"
	"regexp"
	"strconv"
	"time"
)

// ReplyTimeout bounds how long a protocol client waits for one reply. Commands take
// milliseconds; hitting this bound means the server is wedged.
var ReplyTimeout = 20 * time.Second

// Reply is one (possibly multi-line) SMTP reply.
type Reply struct {
	Code       int      `json:"code"`
	Lines      []string `json:"lines"`
	WellFormed bool     `json:"well_formed"`
}

func (r Reply) String() string {
	if len(r.Lines) == 0 {
		return "<none>"
	}
	return r.Lines[len(r.Lines)-1]
}

// Class returns the hundreds digit of the code.
func (r Reply) Class() int { return r.Code / 100 }

var smtpLineRE = regexp.MustCompile(`^(\d{3})([ -])(.*)\r\n$`)

// LineConn is a connection with a background reader that splits the server's output into
// lines, so that a synchronous pipe can never block the server's writes.
type LineConn struct {
	Conn  net.Conn
	Lines chan string // raw lines including the terminator
	EOF   chan struct{}
	Done  <-chan struct{} // session goroutine ended
}

func NewLineConn(c net.Conn, done <-chan struct{}) *LineConn {
	lc := &LineConn{Conn: c, Lines: make(chan string, 100000), EOF: make(chan struct{}), Done: done}
	go func() {
		br := bufio.NewReaderSize(c, 1<<16)
		for {
			l, err := br.ReadString('\n')
			if l != "" {
				lc.Lines <- l
			}
			if err != nil {
				close(lc.EOF)
				return
			}
		}
	}()
	return lc
}

// ErrTimeout means no reply arrived in time; ErrClosed that the server closed the connection.
var (
	ErrTimeout = fmt.Errorf("timeout waiting for reply")
	ErrClosed  = fmt.Errorf("connection closed by server")
)

// ReadLine returns the next line from the server.
func (lc *LineConn) ReadLine(timeout time.Duration) (string, error) {
	select {
	case l := <-lc.Lines:
		return l, nil
	default:
	}
	select {
	case l := <-lc.Lines:
		return l, nil
	case <-lc.EOF:
		select {
		case l := <-lc.Lines:
			return l, nil
		default:
		}
		return "", ErrClosed
	case <-time.After(timeout):
		return "", ErrTimeout
	}
}

// Write sends raw bytes with a deadline.
func (lc *LineConn) Write(b []byte) error {
	_ = lc.Conn.SetWriteDeadline(time.Now().Add(ReplyTimeout))
	_, err := lc.Conn.Write(b)
	return err
}

// Close closes the client side and waits for the session goroutine to end.
func (lc *LineConn) Close() error {
	_ = lc.Conn.Close()
	if lc.Done != nil {
		select {
		case <-lc.Done:
		case <-time.After(ReplyTimeout):
			return fmt.Errorf("session goroutine still running %v after the connection was closed", ReplyTimeout)
		}
	}
	return nil
}

// SMTPClient is a scripted SMTP client.
type SMTPClient struct{ *LineConn }

// DialSMTP starts a session in w and reads the greeting.
func (w *World) DialSMTP() (*SMTPClient, Reply, error) {
	c, done := w.ServeSMTP()
	sc := &SMTPClient{NewLineConn(c, done)}
	r, err := sc.ReadReply()
	return sc, r, err
}

// ReadReply reads one complete reply (following "ddd-" continuation lines).
func (c *SMTPClient) ReadReply() (Reply, error) {
	r := Reply{WellFormed: true}
	for {
		l, err := c.ReadLine(ReplyTimeout)
		if err != nil {
			return r, err
		}
		r.Lines = append(r.Lines, l)
		m := smtpLineRE.FindStringSubmatch(l)
		if m == nil {
			r.WellFormed = false
			return r, nil
		}
		code, _ := strconv.Atoi(m[1])
		if r.Code != 0 && r.Code != code {
			r.WellFormed = false
		}
		r.Code = code
		if m[2] == " " {
			return r, nil
		}
	}
}

// Cmd sends one command line (CRLF appended) and reads one reply.
func (c *SMTPClient) Cmd(line string) (Reply, error) {
	if err := c.Write([]byte(line + "\r\n")); err != nil {
		return Reply{}, err
	}
	return c.ReadReply()
}

// DotStuff encodes body for the DATA phase the way a conforming client does: a dot is
// doubled at every line start (the beginning, or the byte after any LF) and the data is
// terminated by CRLF "." CRLF; unless body already ends with CRLF, the CRLF of the terminator
// becomes part of the message (RFC 5321 4.1.1.4). Bare CR and bare LF inside the body are
// transmitted as such.
func DotStuff(body []byte) (wire []byte, transmitted []byte) {
	transmitted = body
	if !bytes.HasSuffix(body, []byte("\r\n")) {
		transmitted = append(append([]byte{}, body...), '\r', '\n')
	}
	var b bytes.Buffer
	bol := true
	for _, ch := range transmitted {
		if bol && ch == '.' {
			b.WriteByte('.')
		}
		b.WriteByte(ch)
		bol = ch == '\n'
	}
	b.WriteString(".\r\n")
	return b.Bytes(), transmitted
}

// StdlibInverts reports whether Go's textproto dot-reader (which inbucket uses for DATA)
// decodes wire back to transmitted up to line-ending normalisation. It does not when an
// empty line terminated by a bare LF is directly followed by a dot: the reader does not
// treat the byte after such an LF as a line start. Used only to classify cases that fall
// under the recorded finding C02:dot-after-bare-lf-empty-line, never as an oracle.
func StdlibInverts(wire, transmitted []byte) bool {
	got, err := textproto.NewReader(bufio.NewReader(bytes.NewReader(wire))).ReadDotBytes()
	return err == nil && bytes.Equal(Canon(got), Canon(transmitted))
}

// Data sends body dot-stuffed with the terminator and reads the reply.
func (c *SMTPClient) Data(body []byte) (Reply, error) {
	wire, _ := DotStuff(body)
	if err := c.Write(wire); err != nil {
		return Reply{}, err
	}
	return c.ReadReply()
}

// Canon reduces line-ending variation: every run of CRs immediately followed by LF,
// together with that LF, is one line break (written as LF).
func Canon(b []byte) []byte {
	out := make([]byte, 0, len(b))
	i := 0
	for i < len(b) {
		if b[i] == '\r' {
			j := i
			for j < len(b) && b[j] == '\r' {
				j++
			}
			if j < len(b) && b[j] == '\n' {
				out = append(out, '\n')
				i = j + 1
				continue
			}
			out = append(out, b[i:j]...)
			i = j
			continue
		}
		out = append(out, b[i])
		i++
	}
	return out
}
