package hx

import (
	"strings"

	"pgregory.net/rapid"
)

func containsFold(l []string, d string) bool {
	for _, x := range l {
		if strings.ToLower(x) == d {
			return true
		}
	}
	return false
}

// RefAccept is the documented recipient accept rule (doc/config.md).
func RefAccept(c Cfg, domain string) bool {
	d := strings.ToLower(domain)
	if c.DefaultAccept {
		return !containsFold(c.RejectDomains, d)
	}
	return containsFold(c.AcceptDomains, d)
}

// RefStore is the documented store/discard rule.
func RefStore(c Cfg, domain string) bool {
	d := strings.ToLower(domain)
	if c.DefaultStore {
		return !containsFold(c.DiscardDomains, d)
	}
	return containsFold(c.StoreDomains, d)
}

// WildMatch is a reference matcher written directly from the definition ('*' any run, also
// empty; '?' exactly one character), as a recursion over (pattern position, subject position)
// with memoisation so that patterns with many stars stay cheap.
func WildMatch(p, s string) bool {
	pr, sr := []rune(p), []rune(s)
	memo := map[[2]int]bool{}
	var rec func(i, j int) bool
	rec = func(i, j int) bool {
		if v, ok := memo[[2]int{i, j}]; ok {
			return v
		}
		var r bool
		switch {
		case i == len(pr):
			r = j == len(sr)
		case pr[i] == '*':
			r = rec(i+1, j) || (j < len(sr) && rec(i, j+1))
		case j < len(sr) && (pr[i] == '?' || pr[i] == sr[j]):
			r = rec(i+1, j+1)
		}
		memo[[2]int{i, j}] = r
		return r
	}
	return rec(0, 0)
}

// RefOriginOK is the documented reject-origin rule: refused when the sender's domain matches
// any pattern, ignoring case.
func RefOriginOK(c Cfg, domain string) bool {
	d := strings.ToLower(domain)
	for _, p := range c.RejectOrigin {
		if WildMatch(strings.ToLower(p), d) {
			return false
		}
	}
	return true
}

// RefMailboxPlain gives the documented mailbox name for a plain local@domain address
// (dot-atom local part, optional +ext): see the examples in doc/config.md. ok is false for
// address shapes the examples do not cover.
func RefMailboxPlain(naming, addr string) (name string, ok bool) {
	local, domain := SplitAddr(addr)
	if local == "" || domain == "" || strings.ContainsAny(local, "\"\\@:, ") || strings.HasPrefix(domain, "[") {
		return "", false
	}
	base := strings.ToLower(local)
	if i := strings.IndexByte(base, '+'); i >= 0 {
		base = base[:i]
	}
	if base == "" || strings.HasSuffix(base, ".") {
		return "", false
	}
	switch naming {
	case "local":
		return base, true
	case "full":
		return base + "@" + strings.ToLower(domain), true
	case "domain":
		return strings.ToLower(domain), true
	}
	return "", false
}

// ListDomains is what the policy lists are drawn from: the vocabulary, weighted, plus
// address literals (which a list may name like any other domain).
var ListDomains = append(append(append([]string{}, Domains...), Domains...), "[1.2.3.4]", "[IPv6:::1]", "[IPv6:2001:db8::1]")

// PolicyCfgGen draws accept/store policy switches and lists over the shared vocabulary with
// random letter case.
func PolicyCfgGen(base Cfg) *rapid.Generator[Cfg] {
	return rapid.Custom(func(t *rapid.T) Cfg {
		c := base
		dl := func(label string) []string {
			n := rapid.IntRange(0, 3).Draw(t, label+"n")
			var l []string
			for i := 0; i < n; i++ {
				d := rapid.SampledFrom(ListDomains).Draw(t, label)
				if rapid.Bool().Draw(t, label+"case") {
					d = ReCase(d, rapid.Uint64().Draw(t, label+"mask"))
				}
				l = append(l, d)
			}
			return l
		}
		c.Naming = rapid.SampledFrom([]string{"local", "full", "domain"}).Draw(t, "naming")
		c.DefaultAccept = rapid.Bool().Draw(t, "defaccept")
		c.DefaultStore = rapid.Bool().Draw(t, "defstore")
		c.AcceptDomains = dl("accept")
		c.RejectDomains = dl("reject")
		c.StoreDomains = dl("store")
		c.DiscardDomains = dl("discard")
		if rapid.IntRange(0, 2).Draw(t, "hasorigin") == 0 {
			c.RejectOrigin = rapid.SliceOfN(rapid.SampledFrom([]string{"bad.test", "*.bad.test", "b?d.test", "*", "B.TEST", "x-y.*"}), 1, 2).Draw(t, "origin")
		}
		c.MaxRecipients = rapid.IntRange(1, 5).Draw(t, "maxrcpt")
		c.Backend = rapid.SampledFrom([]string{"mem", "file"}).Draw(t, "backend")
		return c
	})
}
