package hx

import (
	"bytes"
	"fmt"
	"net/mail"
	"strings"

	"pgregory.net/rapid"
)

// MailMsg is a generated RFC 5322 message whose expected metadata is known by construction.
type MailMsg struct {
	From      *Addr    `json:"from,omitempty"`     // From header; nil = header absent
	FromRaw   string   `json:"from_raw,omitempty"` // unparsable From header value (overrides From)
	To        []Addr   `json:"to,omitempty"`       // To header; empty = absent
	ToRaw     string   `json:"to_raw,omitempty"`   // unparsable To header value
	Subject   string   `json:"subject"`
	NoSubject bool     `json:"no_subject,omitempty"`
	Extra     []string `json:"extra,omitempty"` // extra header lines
	Body      []byte   `json:"body"`
	BadHeader bool     `json:"bad_header,omitempty"` // header block the MIME header reader rejects
}

func hdrAddr(a Addr) string {
	if a.Name == "" {
		return a.Address
	}
	if strings.ContainsAny(a.Name, " ,.") {
		return fmt.Sprintf("%q <%s>", a.Name, a.Address)
	}
	return fmt.Sprintf("%s <%s>", a.Name, a.Address)
}

// Bytes renders the message as the client transmits it (CRLF line ends in the header).
func (m *MailMsg) Bytes() []byte {
	var b bytes.Buffer
	if m.BadHeader {
		b.WriteString("this line has no colon and is not a header\r\n")
	}
	if m.FromRaw != "" {
		b.WriteString("From: " + m.FromRaw + "\r\n")
	} else if m.From != nil {
		b.WriteString("From: " + hdrAddr(*m.From) + "\r\n")
	}
	if m.ToRaw != "" {
		b.WriteString("To: " + m.ToRaw + "\r\n")
	} else if len(m.To) > 0 {
		var l []string
		for _, a := range m.To {
			l = append(l, hdrAddr(a))
		}
		b.WriteString("To: " + strings.Join(l, ", ") + "\r\n")
	}
	if !m.NoSubject {
		b.WriteString("Subject: " + m.Subject + "\r\n")
	}
	for _, e := range m.Extra {
		b.WriteString(e + "\r\n")
	}
	b.WriteString("\r\n")
	b.Write(m.Body)
	return b.Bytes()
}

// Expect computes the metadata the statement calls for: header values, or the envelope
// when a header is absent or unparsable.
func (m *MailMsg) Expect(sender string, rcpts []string) (from *mail.Address, to []*mail.Address, subject string) {
	if m.From != nil && m.FromRaw == "" {
		from = m.From.Mail()
	} else {
		from = &mail.Address{Address: sender}
	}
	if len(m.To) > 0 && m.ToRaw == "" {
		for i := range m.To {
			to = append(to, m.To[i].Mail())
		}
	} else {
		for _, r := range rcpts {
			to = append(to, &mail.Address{Address: r})
		}
	}
	if !m.NoSubject {
		subject = m.Subject
	}
	return
}

var hdrAddrGen = rapid.Custom(func(t *rapid.T) Addr {
	return Addr{
		Name:    rapid.SampledFrom([]string{"", "", "Bob", "Ann Lee", "Dr. X"}).Draw(t, "name"),
		Address: rapid.SampledFrom([]string{"bob@example.com", "ann@x.org", "c.d@sub.a.test", "UP@Case.Test"}).Draw(t, "addr"),
	}
})

// SimpleBodyGen draws a short text body.
var SimpleBodyGen = rapid.Custom(func(t *rapid.T) []byte {
	n := rapid.IntRange(0, 4).Draw(t, "nlines")
	var b bytes.Buffer
	for i := 0; i < n; i++ {
		b.WriteString(rapid.SampledFrom([]string{"hello", "", "line two", ".dot", "..", "x y z", "tab\there"}).Draw(t, "line"))
		b.WriteString("\r\n")
	}
	return b.Bytes()
})

// MailMsgGen draws a message; badPct is the percentage with an unparsable header block.
func MailMsgGen(body *rapid.Generator[[]byte], badPct int) *rapid.Generator[*MailMsg] {
	return rapid.Custom(func(t *rapid.T) *MailMsg {
		m := &MailMsg{}
		switch rapid.IntRange(0, 9).Draw(t, "fromkind") {
		case 0:
		case 1:
			m.FromRaw = rapid.SampledFrom([]string{"not an address <<", "@@", "a b c"}).Draw(t, "fromraw")
		default:
			a := hdrAddrGen.Draw(t, "from")
			m.From = &a
		}
		switch rapid.IntRange(0, 9).Draw(t, "tokind") {
		case 0:
		case 1:
			m.ToRaw = rapid.SampledFrom([]string{"undisclosed-recipients:; garbage <", "<<>>"}).Draw(t, "toraw")
		default:
			m.To = rapid.SliceOfN(hdrAddrGen, 1, 3).Draw(t, "to")
		}
		if rapid.IntRange(0, 9).Draw(t, "nosubj") == 0 {
			m.NoSubject = true
		} else {
			m.Subject = rapid.SampledFrom([]string{"hi", "Test message", "Re: [x] y", "numbers 123", "x"}).Draw(t, "subject")
		}
		if rapid.IntRange(0, 3).Draw(t, "extra") == 0 {
			m.Extra = []string{"X-Gen: 1", "Message-Id: <abc@gen>"}
		}
		m.Body = body.Draw(t, "body")
		if badPct > 0 && rapid.IntRange(0, 99).Draw(t, "bad") < badPct {
			m.BadHeader = true
		}
		return m
	})
}

// Domains is the small domain vocabulary shared by address and policy generators, so list
// hits are frequent.
var Domains = []string{"a.test", "b.test", "c.test", "sub.a.test", "x-y.test"}

// ReCase returns s with letter case flipped where mask bits say so.
func ReCase(s string, mask uint64) string {
	b := []byte(s)
	for i := range b {
		if mask&(1<<(uint(i)%64)) != 0 {
			switch {
			case 'a' <= b[i] && b[i] <= 'z':
				b[i] -= 32
			case 'A' <= b[i] && b[i] <= 'Z':
				b[i] += 32
			}
		}
	}
	return string(b)
}

// LocalGen draws local parts: plain, dotted, with +ext, mixed case.
var LocalGen = rapid.Custom(func(t *rapid.T) string {
	base := rapid.SampledFrom([]string{"user", "bob", "a.b", "x", "u1", "o'neil", "per%cent", "sl/ash", "q?m", "ha#sh", "eq=l"}).Draw(t, "base")
	if rapid.IntRange(0, 3).Draw(t, "ext") == 0 {
		base += "+" + rapid.SampledFrom([]string{"tag", "", "a+b", "x.y"}).Draw(t, "extv")
	}
	if rapid.IntRange(0, 3).Draw(t, "recase") == 0 {
		base = ReCase(base, rapid.Uint64().Draw(t, "mask"))
	}
	return base
})

// DomainGen draws a domain from the vocabulary, sometimes re-cased, sometimes an IP literal.
var DomainGen = rapid.Custom(func(t *rapid.T) string {
	if rapid.IntRange(0, 11).Draw(t, "lit") == 0 {
		return rapid.SampledFrom([]string{"[1.2.3.4]", "[IPv6:::1]", "[IPv6:2001:db8::1]"}).Draw(t, "iplit")
	}
	d := rapid.SampledFrom(Domains).Draw(t, "dom")
	if rapid.IntRange(0, 3).Draw(t, "recase") == 0 {
		d = ReCase(d, rapid.Uint64().Draw(t, "mask"))
	}
	return d
})

// RcptGen draws recipient address strings: mostly well-formed, some malformed.
var RcptGen = rapid.Custom(func(t *rapid.T) string {
	switch rapid.IntRange(0, 19).Draw(t, "kind") {
	case 0:
		return rapid.SampledFrom([]string{"nodomain", "a@", "@b.test", "two@@a.test", "sp ace@a.test", ".lead@a.test", "trail.@a.test", "dd..ot@a.test", "bad@do main", "bad@-a.test", "\"unterminated@a.test", ""}).Draw(t, "bad")
	case 1:
		return "\"quo ted\"@" + DomainGen.Draw(t, "d")
	case 2:
		return "@route.test,@r2.test:" + LocalGen.Draw(t, "l") + "@" + DomainGen.Draw(t, "d")
	case 3:
		return "esc\\@ped@" + DomainGen.Draw(t, "d")
	}
	return LocalGen.Draw(t, "l") + "@" + DomainGen.Draw(t, "d")
})

// SplitAddr splits at the last '@' (good enough for the generated well-formed addresses).
func SplitAddr(a string) (local, domain string) {
	i := strings.LastIndexByte(a, '@')
	if i < 0 {
		return a, ""
	}
	return a[:i], a[i+1:]
}
