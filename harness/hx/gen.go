package hx

import (
	"net/mail"
	"strings"
	"time"

	"pgregory.net/rapid"
)

// MsgSpec is a serialisable message for direct store delivery.
type MsgSpec struct {
	From    *Addr  `json:"from,omitempty"`
	To      []Addr `json:"to"`
	ToNil   bool   `json:"to_nil,omitempty"`
	DateOff int    `json:"date_off"` // seconds relative to BaseTime
	Zone    int    `json:"zone"`     // minutes east of UTC
	Subject string `json:"subject"`
	Body    []byte `json:"body"`
	// ZeroDate: the delivery carries the zero time (no date known); it must read back as such.
	ZeroDate bool `json:"zero_date,omitempty"`
}

func (s *MsgSpec) FromAddr() *mail.Address { return s.From.Mail() }

func (s *MsgSpec) ToAddrs() []*mail.Address {
	if s.ToNil {
		return nil
	}
	l := make([]*mail.Address, 0, len(s.To))
	for i := range s.To {
		l = append(l, s.To[i].Mail())
	}
	return l
}

func (s *MsgSpec) Date() time.Time {
	if s.ZeroDate {
		return time.Time{}
	}
	t := BaseTime.Add(time.Duration(s.DateOff) * time.Second)
	if s.Zone != 0 {
		t = t.In(time.FixedZone("", s.Zone*60))
	}
	return t
}

var addrGen = rapid.Custom(func(t *rapid.T) Addr {
	return Addr{
		Name:    rapid.SampledFrom([]string{"", "Bob", "Ann Lee", "Jörg", "\xff\xfe"}).Draw(t, "name"),
		Address: rapid.SampledFrom([]string{"bob@example.com", "ann@x.org", "", "weird\"quote@x", "UPPER@CASE.COM"}).Draw(t, "addr"),
	}
})

// BodyGen draws message content of 0..~8 KiB: arbitrary bytes, sometimes a repeated block.
var BodyGen = rapid.Custom(func(t *rapid.T) []byte {
	b := rapid.SliceOfN(rapid.Byte(), 0, 300).Draw(t, "bytes")
	rep := rapid.SampledFrom([]int{1, 1, 1, 1, 2, 5, 30}).Draw(t, "rep")
	out := make([]byte, 0, len(b)*rep)
	for i := 0; i < rep; i++ {
		out = append(out, b...)
	}
	return out
})

// MsgSpecGen draws arbitrary metadata and bodies for store-level delivery.
var MsgSpecGen = rapid.Custom(func(t *rapid.T) *MsgSpec {
	s := &MsgSpec{}
	if rapid.IntRange(0, 5).Draw(t, "fromnil") > 0 {
		a := addrGen.Draw(t, "from")
		s.From = &a
	}
	switch rapid.IntRange(0, 5).Draw(t, "tokind") {
	case 0:
		s.ToNil = true
	case 1:
		s.To = []Addr{}
	default:
		s.To = rapid.SliceOfN(addrGen, 1, 3).Draw(t, "to")
	}
	s.DateOff = rapid.IntRange(-100000000, 100000000).Draw(t, "dateoff")
	s.Zone = rapid.SampledFrom([]int{0, 0, 60, -300, 345}).Draw(t, "zone")
	s.ZeroDate = rapid.IntRange(0, 11).Draw(t, "zerodate") == 0
	s.Subject = rapid.SampledFrom([]string{"", "hello", "s\xffbad utf8", "line\nbreak", "a very long subject " + string(make([]byte, 300)), "=?utf-8?q?enc?=",
		// metadata larger than any buffer a store is likely to read its index through
		"ten kilobytes " + strings.Repeat("0123456789", 1000)}).Draw(t, "subject")
	s.Body = BodyGen.Draw(t, "body")
	return s
})

// BoxesGen draws n..m distinct mailbox names, favouring bucket mates.
func BoxesGen(lo, hi int) *rapid.Generator[[]string] {
	return rapid.Custom(func(t *rapid.T) []string {
		n := rapid.IntRange(lo, hi).Draw(t, "nbox")
		var out []string
		seen := map[string]bool{}
		add := func(s string) {
			if !seen[s] && len(out) < n {
				seen[s] = true
				out = append(out, s)
			}
		}
		if rapid.Bool().Draw(t, "mates3") {
			for _, s := range Bucket3()[:2] {
				add(s)
			}
		}
		if rapid.IntRange(0, 3).Draw(t, "mates6") == 0 {
			for _, s := range Bucket6() {
				add(s)
			}
		}
		if rapid.IntRange(0, 5).Draw(t, "longmates") == 0 {
			for _, s := range LongMates() {
				add(s)
			}
		}
		pool := NamePool()
		for len(out) < n {
			add(rapid.SampledFrom(pool).Draw(t, "box"))
		}
		return out
	})
}

// SizedMsgGen draws a message whose body has one of the given sizes (±jitter), content a
// repeated byte, so the case stays small while sizes vary.
func SizedMsgGen(sizes []int) *rapid.Generator[*MsgSpec] {
	return rapid.Custom(func(t *rapid.T) *MsgSpec {
		n := rapid.SampledFrom(sizes).Draw(t, "size") + rapid.IntRange(0, 40).Draw(t, "jitter")
		b := rapid.Byte().Draw(t, "fill")
		body := make([]byte, n)
		for i := range body {
			body[i] = b
		}
		a := Addr{Address: "s@example.com"}
		return &MsgSpec{From: &a, To: []Addr{{Address: "r@example.com"}}, DateOff: rapid.IntRange(0, 1000).Draw(t, "dateoff"),
			Subject: "sized", Body: body}
	})
}
