// Package hx is the shared library of the verification harness: property runner with
// statistics/replay plumbing, world builder, scripted protocol clients, store model.
package hx

import (
	"encoding/json"
	"flag"
	"fmt"
	"hash/fnv"
	"os"
	"path/filepath"
	"runtime/debug"
	"sort"
	"strconv"
	"strings"
	"sync"
	"testing"
	"time"

	"github.com/rs/zerolog"
	"pgregory.net/rapid"
)

func init() {
	zerolog.SetGlobalLevel(zerolog.Disabled)
}

// Violation describes one failed oracle.
type Violation struct {
	Key string `json:"key"` // class of failure; matched against known_findings.json
	Msg string `json:"msg"`
}

func (v *Violation) Error() string { return v.Key + ": " + v.Msg }

// Outcome is what running one case yields.
type Outcome struct {
	Viols      []*Violation // all violations observed (oracle continues where it can)
	NonTrivial bool
	Classes    []string
}

// Failf appends a violation.
func (o *Outcome) Failf(key, format string, a ...interface{}) {
	o.Viols = append(o.Viols, &Violation{Key: key, Msg: fmt.Sprintf(format, a...)})
}

// Class tags the case with a class label (counted in the evidence histogram).
func (o *Outcome) Class(c string) {
	for _, x := range o.Classes {
		if x == c {
			return
		}
	}
	o.Classes = append(o.Classes, c)
}

// Failed reports whether any violation was recorded.
func (o *Outcome) Failed() bool { return len(o.Viols) > 0 }

// Prop is one generated check: Gen draws a serialisable case, Run executes it
// deterministically against the code under test and an oracle.
type Prop[C any] struct {
	ID       string // property id, e.g. "C07"
	Name     string // sub-check name
	Rule     string // how cases are generated and what makes one non-trivial
	Quick    int    // cases per process in the quick tier
	Thorough int    // cases per shard in the thorough tier
	Gen      func(t *rapid.T) C
	Run      func(c C) *Outcome
}

// ReplayFile is the on-disk form of a case.
type ReplayFile struct {
	Property  string          `json:"property"`
	Prop      string          `json:"prop"`
	Case      json.RawMessage `json:"case"`
	Violation []*Violation    `json:"violation,omitempty"`
	Expect    string          `json:"expect,omitempty"` // regress files: "pass" or a known-finding key
	Note      string          `json:"note,omitempty"`
}

// ---- run-wide state ----

var (
	mu       sync.Mutex
	recs     = map[string]*rec{}
	knownSet map[string]string // key -> what
	knownOne sync.Once
)

type rec struct {
	Prop        string            `json:"prop"`
	Rule        string            `json:"rule"`
	Evaluations int               `json:"evaluations"`
	NonTrivial  int               `json:"nontrivial"`
	Hashes      map[string]bool   `json:"-"`
	HashList    []string          `json:"nontrivial_hashes"`
	Classes     map[string]int    `json:"classes"`
	Samples     []json.RawMessage `json:"samples"`
	KnownHits   map[string]int    `json:"known_hits"`
	Regress     int               `json:"regress_cases"`
	WallS       float64           `json:"wall_s"`
}

func getRec(name, rule string) *rec {
	r := recs[name]
	if r == nil {
		r = &rec{Prop: name, Rule: rule, Hashes: map[string]bool{}, Classes: map[string]int{}, KnownHits: map[string]int{}}
		recs[name] = r
	}
	return r
}

// Tier returns "quick" or "thorough".
func Tier() string {
	if os.Getenv("VERIF_TIER") == "thorough" {
		return "thorough"
	}
	return "quick"
}

// OutDir is where this process writes statistics and replay files.
func OutDir() string {
	d := os.Getenv("VERIF_OUT")
	if d == "" {
		d = filepath.Join(os.TempDir(), "verif-out")
	}
	_ = os.MkdirAll(d, 0o755)
	return d
}

// Shard returns this process's shard label.
func Shard() string {
	s := os.Getenv("VERIF_SHARD")
	if s == "" {
		s = "0"
	}
	return s
}

func seed() uint64 {
	s, err := strconv.ParseUint(os.Getenv("VERIF_SHARD_SEED"), 10, 64)
	if err != nil || s == 0 {
		s = 1
	}
	return s
}

// Known returns the known-finding keys (key -> description) from known_findings.json.
func Known() map[string]string {
	knownOne.Do(func() {
		knownSet = map[string]string{}
		p := os.Getenv("VERIF_KNOWN")
		if p == "" {
			p = "/verif/known_findings.json"
		}
		b, err := os.ReadFile(p)
		if err != nil {
			return
		}
		var f struct {
			Findings []struct {
				Property string `json:"property"`
				Key      string `json:"key"`
				What     string `json:"what"`
			} `json:"findings"`
		}
		if json.Unmarshal(b, &f) == nil {
			for _, k := range f.Findings {
				knownSet[k.Key] = k.What
			}
		}
	})
	return knownSet
}

// split separates violations into unlisted ones and hits on known findings.
func split(o *Outcome) (fatal []*Violation, known []string) {
	k := Known()
	for _, v := range o.Viols {
		if _, ok := k[v.Key]; ok && v.Key != "" {
			known = append(known, v.Key)
		} else {
			fatal = append(fatal, v)
		}
	}
	return
}

func hashOf(b []byte) string {
	h := fnv.New64a()
	_, _ = h.Write(b)
	return strconv.FormatUint(h.Sum64(), 16)
}

// safeRun runs the case, turning a panic in the calling goroutine into a violation.
func (p Prop[C]) safeRun(c C) (o *Outcome) {
	defer func() {
		if r := recover(); r != nil {
			if o == nil {
				o = &Outcome{}
			}
			o.Failf(p.ID+":harness-goroutine-panic", "panic: %v\n%s", r, debug.Stack())
		}
	}()
	o = p.Run(c)
	if o == nil {
		o = &Outcome{}
	}
	return o
}

func (p Prop[C]) full() string { return p.ID + "/" + p.Name }

func (p Prop[C]) curPath() string {
	return filepath.Join(OutDir(), fmt.Sprintf("current-%s-%s.json", p.Name, Shard()))
}

func (p Prop[C]) writeReplay(path string, c C, v []*Violation) {
	cb, _ := json.Marshal(c)
	rf := ReplayFile{Property: p.ID, Prop: p.Name, Case: cb, Violation: v}
	b, _ := json.MarshalIndent(rf, "", " ")
	_ = os.WriteFile(path, b, 0o644)
}

// Check runs the generated search.
func (p Prop[C]) Check(t *testing.T) {
	n := p.Quick
	if Tier() == "thorough" {
		n = p.Thorough
	}
	if s := os.Getenv("VERIF_CASES_" + strings.ToUpper(p.Name)); s != "" {
		if v, err := strconv.Atoi(s); err == nil {
			n = v
		}
	}
	if n <= 0 {
		return
	}
	_ = flag.Set("rapid.checks", strconv.Itoa(n))
	_ = flag.Set("rapid.seed", strconv.FormatUint(seed(), 10))
	_ = flag.Set("rapid.nofailfile", "true")
	if os.Getenv("VERIF_SHRINKTIME") != "" {
		_ = flag.Set("rapid.shrinktime", os.Getenv("VERIF_SHRINKTIME"))
	} else {
		_ = flag.Set("rapid.shrinktime", "20s")
	}
	_ = os.RemoveAll("testdata/rapid")
	mu.Lock()
	r := getRec(p.Name, p.Rule)
	mu.Unlock()
	start := time.Now()
	violPath := filepath.Join(OutDir(), fmt.Sprintf("violation-%s-%s.json", p.Name, Shard()))
	_ = os.Remove(violPath)
	// rapid checks its shrink budget only between passes; a failing case that takes seconds
	// (a wedged hub, a blocked shutdown) would make one pass last for ever. Once the budget
	// since the first failure is spent, every candidate other than the smallest failing case
	// found so far is turned down without being run.
	budget := 30 * time.Second
	if d, err := time.ParseDuration(os.Getenv("VERIF_SHRINKTIME")); err == nil {
		budget = d + 10*time.Second
	}
	var firstFail time.Time
	var lastFailing, lastMsg string
	rapid.Check(t, func(rt *rapid.T) {
		c := p.Gen(rt)
		cb, _ := json.Marshal(c)
		if !firstFail.IsZero() && string(cb) == lastFailing {
			// the shrinker often arrives at the same case through other random bits: its
			// verdict is known (and a slow failing case is not run again and again)
			rt.Fatalf("%s", lastMsg)
		}
		if !firstFail.IsZero() && time.Since(firstFail) > budget {
			rt.Skip("shrink budget spent")
		}
		// Log the case before running it: if the process dies this is the replay file.
		p.writeReplay(p.curPath(), c, nil)
		o := p.safeRun(c)
		fatal, known := split(o)
		mu.Lock()
		r.Evaluations++
		if o.NonTrivial {
			r.NonTrivial++
			r.Hashes[hashOf(cb)] = true
		}
		for _, cl := range o.Classes {
			r.Classes[cl]++
		}
		for _, k := range known {
			r.KnownHits[k]++
		}
		if len(r.Samples) < 3 && (o.NonTrivial || r.Evaluations > 20) && len(cb) < 6000 {
			r.Samples = append(r.Samples, cb)
		}
		mu.Unlock()
		if len(fatal) > 0 {
			if firstFail.IsZero() {
				firstFail = time.Now()
			}
			lastFailing = string(cb)
			lastMsg = fmt.Sprintf("VIOLATION %s: %s", p.full(), fatal[0].Error())
			p.writeReplay(violPath, c, fatal)
			rt.Fatalf("%s", lastMsg)
		}
	})
	mu.Lock()
	r.WallS += time.Since(start).Seconds()
	mu.Unlock()
	_ = os.Remove(p.curPath())
}

// RunFile replays one file; it returns the outcome.
func (p Prop[C]) RunFile(path string) (*Outcome, *ReplayFile, error) {
	b, err := os.ReadFile(path)
	if err != nil {
		return nil, nil, err
	}
	var rf ReplayFile
	if err := json.Unmarshal(b, &rf); err != nil {
		return nil, nil, err
	}
	var c C
	if err := json.Unmarshal(rf.Case, &c); err != nil {
		return nil, &rf, err
	}
	return p.safeRun(c), &rf, nil
}

// Replay runs the case in path when it belongs to this prop. Used by TestReplay.
func (p Prop[C]) Replay(t *testing.T, path string) bool {
	b, err := os.ReadFile(path)
	if err != nil {
		t.Fatalf("replay: %v", err)
	}
	var rf ReplayFile
	if json.Unmarshal(b, &rf) != nil || rf.Prop != p.Name {
		return false
	}
	o, _, err := p.RunFile(path)
	if err != nil {
		t.Fatalf("replay: %v", err)
	}
	fatal, known := split(o)
	for _, k := range known {
		t.Logf("known finding reproduced: %s", k)
	}
	for _, v := range o.Viols {
		t.Logf("violation: %s", v.Error())
	}
	if len(fatal) > 0 {
		fmt.Printf("VIOLATION property=%s replay=%s\n", p.ID, path)
		t.Fatalf("violation reproduced: %s", fatal[0].Error())
	}
	return true
}

// Regress replays the committed cases for this prop from dir (files named <Name>-*.json).
// A file with Expect "pass" (or empty) must pass; a file whose Expect is a known-finding key
// documents that finding: reproducing it is reported, not failed.
func (p Prop[C]) Regress(t *testing.T) {
	dir := os.Getenv("VERIF_REGRESS")
	if dir == "" {
		dir = filepath.Join("/verif/regress", p.ID)
	}
	files, _ := filepath.Glob(filepath.Join(dir, p.Name+"-*.json"))
	sort.Strings(files)
	mu.Lock()
	r := getRec(p.Name, p.Rule)
	mu.Unlock()
	status := map[string]string{}
	for _, f := range files {
		o, rf, err := p.RunFile(f)
		if err != nil {
			t.Errorf("regress %s: %v", f, err)
			continue
		}
		mu.Lock()
		r.Regress++
		mu.Unlock()
		fatal, known := split(o)
		if len(fatal) > 0 {
			out := filepath.Join(OutDir(), fmt.Sprintf("violation-%s-%s.json", p.Name, Shard()))
			b, _ := os.ReadFile(f)
			_ = os.WriteFile(out, b, 0o644)
			t.Errorf("VIOLATION %s regress %s: %s", p.full(), filepath.Base(f), fatal[0].Error())
			continue
		}
		if rf.Expect != "" && rf.Expect != "pass" {
			hit := false
			for _, k := range known {
				if k == rf.Expect {
					hit = true
				}
			}
			if hit {
				status[rf.Expect] = "reproduced"
			} else if status[rf.Expect] == "" {
				status[rf.Expect] = "not-reproduced"
			}
		}
	}
	if len(status) > 0 {
		b, _ := json.Marshal(status)
		_ = os.WriteFile(filepath.Join(OutDir(), fmt.Sprintf("known-%s-%s.json", p.Name, Shard())), b, 0o644)
	}
}

// WriteStats dumps the recorder; call from TestMain after m.Run().
func WriteStats() {
	mu.Lock()
	defer mu.Unlock()
	var out []*rec
	for _, r := range recs {
		r.HashList = r.HashList[:0]
		for h := range r.Hashes {
			r.HashList = append(r.HashList, h)
		}
		sort.Strings(r.HashList)
		out = append(out, r)
	}
	sort.Slice(out, func(i, j int) bool { return out[i].Prop < out[j].Prop })
	b, _ := json.Marshal(out)
	_ = os.WriteFile(filepath.Join(OutDir(), "stats-"+Shard()+".json"), b, 0o644)
}

// Main is the TestMain body shared by all property packages.
func Main(m *testing.M) {
	code := m.Run()
	WriteStats()
	os.Exit(code)
}

// ReplayPath is the -replay flag shared by all property packages.
var ReplayPath = flag.String("replay", "", "replay file to run (TestReplay)")

// AddEvaluations credits n further evaluations (of which nt non-trivial, made distinct by
// key) to prop name: for checks that enumerate many sub-cases (cut points, crash points)
// inside one generated case.
func AddEvaluations(name string, n, nt int, key string) {
	mu.Lock()
	defer mu.Unlock()
	r := recs[name]
	if r == nil {
		return
	}
	r.Evaluations += n
	r.NonTrivial += nt
	for i := 0; i < nt; i++ {
		r.Hashes[hashOf([]byte(fmt.Sprintf("%s#%d", key, i)))] = true
	}
}
