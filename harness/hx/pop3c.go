package hx

import (
	"bytes"
	"strings"
)

// POP3Client is a scripted POP3 client.
type POP3Client struct{ *LineConn }

// PReply is a POP3 reply: status line plus, for multi-line replies, the un-stuffed lines.
type PReply struct {
	OK         bool     `json:"ok"`
	Status     string   `json:"status"`
	Lines      []string `json:"lines,omitempty"` // without terminators, dots un-stuffed
	WellFormed bool     `json:"well_formed"`
}

// DialPOP3 starts a session in w and reads the greeting.
func (w *World) DialPOP3() (*POP3Client, PReply, error) {
	c, done := w.ServePOP3()
	pc := &POP3Client{NewLineConn(c, done)}
	r, err := pc.ReadStatus()
	return pc, r, err
}

// ReadStatus reads a single-line reply.
func (c *POP3Client) ReadStatus() (PReply, error) {
	l, err := c.ReadLine(ReplyTimeout)
	if err != nil {
		return PReply{}, err
	}
	r := PReply{Status: strings.TrimRight(l, "\r\n")}
	r.WellFormed = strings.HasSuffix(l, "\r\n") && (strings.HasPrefix(l, "+OK") || strings.HasPrefix(l, "-ERR"))
	r.OK = strings.HasPrefix(l, "+OK")
	return r, nil
}

// ReadMulti reads the body of a multi-line reply up to the terminating ".".
func (c *POP3Client) ReadMulti(r *PReply) error {
	for {
		l, err := c.ReadLine(ReplyTimeout)
		if err != nil {
			return err
		}
		if !strings.HasSuffix(l, "\r\n") {
			r.WellFormed = false
		}
		l = strings.TrimSuffix(strings.TrimSuffix(l, "\n"), "\r")
		if l == "." {
			return nil
		}
		l = strings.TrimPrefix(l, ".") // un-stuff: a leading dot of a data line was doubled
		r.Lines = append(r.Lines, l)
	}
}

// Cmd sends a command; multi says a positive reply is multi-line.
func (c *POP3Client) Cmd(line string, multi bool) (PReply, error) {
	if err := c.Write([]byte(line + "\r\n")); err != nil {
		return PReply{}, err
	}
	r, err := c.ReadStatus()
	if err != nil {
		return r, err
	}
	if multi && r.OK {
		err = c.ReadMulti(&r)
	}
	return r, err
}

// Login performs USER/PASS.
func (c *POP3Client) Login(user string) (PReply, error) {
	if r, err := c.Cmd("USER "+user, false); err != nil || !r.OK {
		return r, err
	}
	return c.Cmd("PASS x", false)
}

// JoinLines rebuilds message bytes from a multi-line reply using LF line ends.
func JoinLines(lines []string) []byte {
	var b bytes.Buffer
	for _, l := range lines {
		b.WriteString(l)
		b.WriteByte('\n')
	}
	return b.Bytes()
}
