package hx

import (
	"fmt"
	"net/mail"
	"sync"
	"sync/atomic"
	"time"
)

// PTxn is one transaction of a concurrent SMTP session: recipients (full addresses) and the
// message body that follows a generated header block.
type PTxn struct {
	Rcpts []string `json:"rcpts"`
	Body  []byte   `json:"body"`
}

// RunParallel drives len(sessions) SMTP sessions at once against w. Every message carries a
// sender and subject that name its session and transaction, so that copies can be told apart
// afterwards. With barrier set, the sessions of a round hold their final dot until all of them
// have transmitted their data, then release it together. It returns the expectation for every
// acknowledged recipient (mailbox = naming(recipient)) and harness-level problems.
func RunParallel(w *World, sessions [][]PTxn, barrier bool) (acked []*EMsg, problems []string) {
	var mu sync.Mutex
	problem := func(f string, a ...interface{}) {
		mu.Lock()
		problems = append(problems, fmt.Sprintf(f, a...))
		mu.Unlock()
	}
	rounds := 0
	for _, s := range sessions {
		if len(s) > rounds {
			rounds = len(s)
		}
	}
	// one WaitGroup per round for the barrier
	arrive := make([]*sync.WaitGroup, rounds)
	for r := range arrive {
		arrive[r] = &sync.WaitGroup{}
		for _, s := range sessions {
			if r < len(s) {
				arrive[r].Add(1)
			}
		}
	}
	released := make([]atomic.Int32, rounds)
	var wg sync.WaitGroup
	for si, txns := range sessions {
		wg.Add(1)
		go func(si int, txns []PTxn) {
			defer wg.Done()
			arrived := 0
			defer func() {
				// never leave the others waiting at a barrier
				for r := arrived; r < len(txns); r++ {
					arrive[r].Done()
				}
			}()
			cl, greet, err := w.DialSMTP()
			if err != nil || greet.Code != 220 {
				problem("session %d: greeting %v %v", si, greet, err)
				return
			}
			defer cl.Close()
			helo := fmt.Sprintf("c%d.test", si)
			if r, err := cl.Cmd("EHLO " + helo); err != nil || r.Code != 250 {
				problem("session %d: EHLO %v %v", si, r, err)
				return
			}
			for ti, x := range txns {
				sender := fmt.Sprintf("s%d.%d@a.test", si, ti)
				subject := fmt.Sprintf("session %d message %d", si, ti)
				data := append([]byte(fmt.Sprintf("Subject: %s\r\nFrom: %s\r\n\r\n", subject, sender)), x.Body...)
				if r, err := cl.Cmd("MAIL FROM:<" + sender + ">"); err != nil || r.Code != 250 {
					problem("session %d: MAIL %v %v", si, r, err)
					return
				}
				var okRcpts []string
				for _, rc := range x.Rcpts {
					r, err := cl.Cmd("RCPT TO:<" + rc + ">")
					if err != nil {
						problem("session %d: RCPT %v", si, err)
						return
					}
					if r.Code == 250 {
						okRcpts = append(okRcpts, rc)
					}
				}
				if len(okRcpts) == 0 {
					_, _ = cl.Cmd("RSET")
					arrive[ti].Done()
					arrived = ti + 1
					continue
				}
				if r, err := cl.Cmd("DATA"); err != nil || r.Code != 354 {
					problem("session %d: DATA %v %v", si, r, err)
					return
				}
				wire, tx := DotStuff(data)
				t0 := time.Now()
				if err := cl.Write(wire[:len(wire)-3]); err != nil {
					problem("session %d: writing data: %v", si, err)
					return
				}
				arrive[ti].Done()
				arrived = ti + 1
				if barrier {
					arrive[ti].Wait()
					// the wait group wakes its waiters one by one: a spin on a counter lets the
					// sessions of the round go within nanoseconds of each other
					n := int32(0)
					for _, s2 := range sessions {
						if ti < len(s2) {
							n++
						}
					}
					released[ti].Add(1)
					for d := time.Now().Add(50 * time.Millisecond); released[ti].Load() < n && time.Now().Before(d); {
					}
				}
				if err := cl.Write(wire[len(wire)-3:]); err != nil {
					problem("session %d: writing the final dot: %v", si, err)
					return
				}
				r, err := cl.ReadReply()
				if err != nil {
					problem("session %d message %d: no reply after the final dot: %v", si, ti, err)
					return
				}
				if r.Code != 250 {
					// (callers that expect refusals recognise them by this prefix)
					problem("REFUSED %d: session %d message %d: %d bytes answered %v", r.Code, si, ti, len(data), r)
					continue
				}
				var to []*mail.Address
				for _, rc := range okRcpts {
					to = append(to, (&Addr{Address: rc}).Mail())
				}
				mu.Lock()
				for _, rc := range okRcpts {
					name, err := w.MailboxFor(rc)
					if err != nil {
						problems = append(problems, fmt.Sprintf("naming %q: %v", rc, err))
						continue
					}
					acked = append(acked, &EMsg{Mailbox: name, From: (&Addr{Address: sender}).Mail(), To: to, Subject: subject,
						Sender: sender, Helo: helo, Data: tx, NotBefo: t0, NotAfter: time.Now()})
				}
				mu.Unlock()
			}
			_, _ = cl.Cmd("QUIT")
		}(si, txns)
	}
	wg.Wait()
	return
}
