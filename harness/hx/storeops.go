package hx

import (
	"bytes"
	"errors"
	"fmt"
	"io"
	"strings"

	"github.com/inbucket/inbucket/v3/pkg/message"
	"github.com/inbucket/inbucket/v3/pkg/storage"
	"pgregory.net/rapid"
)

// Ref names a message id abstractly so the same case drives stores with different id schemes.
type Ref struct {
	Kind string `json:"kind"` // issued | never | other | empty | latest
	N    int    `json:"n"`
}

// Op is one store operation.
type Op struct {
	K   string   `json:"k"` // add get list seen remove purge visit reopen scan
	Box int      `json:"box"`
	Ref *Ref     `json:"ref,omitempty"`
	Msg *MsgSpec `json:"msg,omitempty"`
}

// Sys is a store under test together with its reference model.
type Sys struct {
	Name  string
	Store storage.Store
	Model *Model
	Boxes []string
}

func (s *Sys) resolve(box string, r *Ref) string {
	if r == nil {
		return "nil-ref"
	}
	switch r.Kind {
	case "issued":
		l := s.Model.IssuedList(box)
		if len(l) == 0 {
			return "none-issued"
		}
		return l[r.N%len(l)]
	case "other":
		ob := s.Boxes[r.N%len(s.Boxes)]
		l := s.Model.IssuedList(ob)
		if len(l) == 0 {
			return "none-issued"
		}
		return l[(r.N/7)%len(l)]
	case "never":
		return []string{"999999", "20200101T000000-0000", "nope", "0", "-1", "../x"}[r.N%6]
	case "empty":
		return ""
	case "latest":
		return "latest"
	}
	return "bad-ref"
}

type failingReader = FailingReader

// FailingReader is a content reader that reports an error instead of more bytes.
type FailingReader struct{}

func (FailingReader) Read([]byte) (int, error) { return 0, errors.New("injected read error") }

// Apply runs op against the store and the model. It returns an id-free description of what
// was observed (for cross-store comparison); violations go to o with keys prefixed by pid.
func (s *Sys) Apply(pid string, op Op, o *Outcome) string {
	box := s.Boxes[op.Box%len(s.Boxes)]
	fail := func(key, f string, a ...interface{}) {
		o.Failf(pid+":"+key, "[%s] %s %s: %s", s.Name, op.K, box, fmt.Sprintf(f, a...))
	}
	switch op.K {
	case "add":
		m := op.Msg
		id, err := s.Store.AddMessage(NewDelivery(box, m.FromAddr(), m.ToAddrs(), m.Date(), m.Subject, m.Body))
		if err != nil {
			fail("add-error", "AddMessage: %v", err)
			return "add err"
		}
		mm := &MMsg{Mailbox: box, ID: id, From: m.FromAddr(), To: m.ToAddrs(), Date: m.Date(), Subject: m.Subject, Body: m.Body}
		ev, ierr := s.Model.Add(mm)
		if ierr != nil {
			fail("id-reuse", "%v", ierr)
		}
		// The id just returned must be retrievable whenever the model keeps the message.
		if s.Model.Get(box, id) != nil {
			sm, err := s.Store.GetMessage(box, id)
			if err != nil || sm == nil {
				fail("added-not-retrievable", "GetMessage(%q) right after add: msg=%v err=%v", id, sm, err)
			} else if d := CmpMsg(sm, mm, true); d != "" {
				fail("readback", "message just added reads back differently: %s", d)
			}
		}
		return fmt.Sprintf("add ok evicted=%d", len(ev))
	case "addfail":
		// a delivery whose content cannot be read to the end (an I/O error half way): it must be
		// reported as failed and leave everything as it was
		m := op.Msg
		d := NewDelivery(box, m.FromAddr(), m.ToAddrs(), m.Date(), m.Subject, m.Body).(*message.Delivery)
		d.Reader = io.MultiReader(bytes.NewReader(m.Body[:len(m.Body)/2]), failingReader{})
		id, err := s.Store.AddMessage(d)
		if err == nil {
			fail("failed-delivery-accepted", "AddMessage returned id %q and no error although the message source failed after %d of %d bytes", id, len(m.Body)/2, len(m.Body))
		}
		return "addfail"
	case "get":
		id := s.resolve(box, op.Ref)
		sm, err := s.Store.GetMessage(box, id)
		mm := s.Model.Get(box, id)
		if mm == nil {
			if !IsNotExist(err) || sm != nil {
				fail("get-missing", "GetMessage(%q) of a message that does not exist returned msg=%v err=%v, want ErrNotExist", id, sm, err)
			}
			return "get notexist"
		}
		if err != nil || sm == nil {
			fail("get-live", "GetMessage(%q) of a live message returned msg=%v err=%v", id, sm, err)
			return "get err"
		}
		if d := CmpMsg(sm, mm, true); d != "" {
			fail("get-differs", "GetMessage(%q): %s", id, d)
		}
		return fmt.Sprintf("get ok #%d", s.Model.IssueIndex(box, mm.ID))
	case "list":
		got, err := s.Store.GetMessages(box)
		if err != nil {
			fail("list-error", "GetMessages: %v", err)
			return "list err"
		}
		want := s.Model.List(box)
		if len(got) != len(want) {
			fail("list-differs", "lists %v, model %v", ids(got), mids(want))
			return "list bad"
		}
		var sb strings.Builder
		for i := range got {
			if d := CmpMsg(got[i], want[i], false); d != "" {
				fail("list-differs", "#%d: %s", i, d)
			}
			fmt.Fprintf(&sb, " #%d/%v", s.Model.IssueIndex(box, want[i].ID), want[i].Seen)
		}
		return "list" + sb.String()
	case "seen":
		id := s.resolve(box, op.Ref)
		err := s.Store.MarkSeen(box, id)
		if s.Model.MarkSeen(box, id) {
			if err != nil {
				fail("seen-live", "MarkSeen(%q) of a live message: %v", id, err)
			}
			return "seen ok"
		}
		if !IsNotExist(err) {
			fail("seen-missing", "MarkSeen(%q) of a message that does not exist returned %v, want ErrNotExist", id, err)
		}
		return "seen notexist"
	case "remove":
		id := s.resolve(box, op.Ref)
		err := s.Store.RemoveMessage(box, id)
		if s.Model.Remove(box, id) != nil {
			if err != nil {
				fail("remove-live", "RemoveMessage(%q) of a live message: %v", id, err)
			}
			return "remove ok"
		}
		if !IsNotExist(err) {
			fail("remove-missing", "RemoveMessage(%q) of a message that does not exist returned %v, want ErrNotExist", id, err)
		}
		return "remove notexist"
	case "purge":
		if err := s.Store.PurgeMessages(box); err != nil {
			fail("purge-error", "PurgeMessages: %v", err)
		}
		s.Model.Purge(box)
		return "purge"
	case "visit":
		return "visit"
	}
	return op.K
}

// Check compares the whole store with the model.
func (s *Sys) Check(pid string, step int, o *Outcome) {
	if err := CmpStore(s.Store, s.Model, s.Boxes); err != nil {
		o.Failf(pid+":state-differs", "[%s] after step %d: %v", s.Name, step, err)
	}
}

var refGen = rapid.Custom(func(t *rapid.T) *Ref {
	k := rapid.SampledFrom([]string{"issued", "issued", "issued", "issued", "never", "other", "empty", "latest"}).Draw(t, "refkind")
	return &Ref{Kind: k, N: rapid.IntRange(0, 1000).Draw(t, "refn")}
})

// OpGen draws one store operation from the given kinds (repeat a kind to weight it).
func OpGen(kinds []string) *rapid.Generator[Op] {
	return rapid.Custom(func(t *rapid.T) Op {
		op := Op{K: rapid.SampledFrom(kinds).Draw(t, "k"), Box: rapid.IntRange(0, 7).Draw(t, "box")}
		switch op.K {
		case "add", "addfail":
			op.Msg = MsgSpecGen.Draw(t, "msg")
		case "get", "seen", "remove":
			op.Ref = refGen.Draw(t, "ref")
		}
		return op
	})
}

// HistClasses classifies a history for the evidence histogram and the non-trivial rule of
// C07/C10: a remove or purge followed by an add to the same mailbox, or a request for a
// non-existent id, and at least two mailboxes touched.
func HistClasses(ops []Op, nbox int, o *Outcome) (readd, missing bool, boxes int) {
	cleared := map[int]bool{}
	touched := map[int]bool{}
	for _, op := range ops {
		b := op.Box % nbox
		touched[b] = true
		switch op.K {
		case "remove", "purge":
			cleared[b] = true
		case "add":
			if cleared[b] {
				readd = true
			}
		}
		if op.Ref != nil && (op.Ref.Kind == "never" || op.Ref.Kind == "other" || op.Ref.Kind == "empty") {
			missing = true
		}
	}
	if readd {
		o.Class("remove/purge then add to same mailbox")
	}
	if missing {
		o.Class("request for a non-existent id")
	}
	return readd, missing, len(touched)
}
