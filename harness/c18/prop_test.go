package c18

import (
	"fmt"
	"strconv"
	"strings"
	"testing"

	"github.com/inbucket/inbucket/v3/pkg/server/web"
	"github.com/inbucket/inbucket/v3/pkg/webui/sanitize"
	"golang.org/x/net/html"
	"pgregory.net/rapid"
	"verif/harness/hx"
)

const pid = "C18"

// the sanitiser's documented allow-list (pkg/webui/sanitize/css.go), fixed here as the oracle
var allowed = map[string]bool{}

func init() {
	for _, p := range strings.Fields(`align background-color border border-bottom border-left border-radius border-right border-top
		box-sizing clear color content display font-family font-size font-weight height line-height margin margin-bottom margin-left
		margin-right margin-top max-height max-width overflow padding padding-bottom padding-left padding-right padding-top table-layout
		text-align text-decoration text-shadow vertical-align width word-break`) {
		allowed[p] = true
	}
}

var forbiddenElems = map[string]bool{"script": true, "style": true, "iframe": true, "frame": true, "frameset": true, "object": true,
	"embed": true, "applet": true, "form": true, "input": true, "button": true, "select": true, "textarea": true, "option": true}

func normURL(v string) string {
	v = strings.TrimLeftFunc(v, func(r rune) bool { return r <= 0x20 })
	v = strings.NewReplacer("\t", "", "\n", "", "\r", "").Replace(v)
	return strings.ToLower(v)
}

// checkSafe re-parses sanitised output with both the tokenizer and the tree builder.
func checkSafe(o *hx.Outcome, input, out string) {
	fail := func(key, f string, a ...interface{}) {
		o.Failf(pid+":"+key, "%s; input %.300q output %.300q", fmt.Sprintf(f, a...), input, out)
	}
	checkAttrs := func(where, tag string, attrs []html.Attribute) {
		for _, a := range attrs {
			k := strings.ToLower(a.Key)
			if strings.HasPrefix(k, "on") {
				fail("event-handler", "%s: <%s> carries event-handler attribute %q", where, tag, a.Key)
			}
			if strings.HasPrefix(normURL(a.Val), "javascript:") {
				fail("javascript-url", "%s: <%s %s=%q> is a javascript: URL", where, tag, a.Key, a.Val)
			}
			if k == "style" {
				for _, p := range DeclaredProperties(a.Val) {
					if !allowed[p] {
						fail("style-property", "%s: <%s style=%q> declares property %q which is not on the allow-list", where, tag, a.Val, p)
					}
				}
			}
		}
	}
	z := html.NewTokenizer(strings.NewReader(out))
	for {
		tt := z.Next()
		if tt == html.ErrorToken {
			break
		}
		if tt == html.StartTagToken || tt == html.SelfClosingTagToken {
			tok := z.Token()
			if forbiddenElems[strings.ToLower(tok.Data)] {
				fail("forbidden-element", "token stream contains <%s>", tok.Data)
			}
			checkAttrs("tokenizer", tok.Data, tok.Attr)
		}
	}
	doc, err := html.Parse(strings.NewReader("<!DOCTYPE html><html><body><div>" + out + "</div></body></html>"))
	if err != nil {
		return
	}
	var walk func(n *html.Node)
	walk = func(n *html.Node) {
		if n.Type == html.ElementNode {
			if forbiddenElems[strings.ToLower(n.Data)] {
				fail("forbidden-element", "parsed tree contains <%s>", n.Data)
			}
			checkAttrs("tree", n.Data, n.Attr)
		}
		for c := n.FirstChild; c != nil; c = c.NextSibling {
			walk(c)
		}
	}
	walk(doc)
}

func dangerous(in string) bool {
	l := strings.ToLower(in)
	for _, s := range []string{"<script", "<style", "<iframe", "<frame", "<object", "<embed", "<form", "<input", " on", "javascript", "position", "behavior", "expression", "-moz-binding", "url(", "@import"} {
		if strings.Contains(l, s) {
			return true
		}
	}
	return false
}

// ---- HTML grammar ----

var tagNames = []string{"p", "div", "span", "a", "b", "img", "table", "td", "center", "script", "style", "iframe", "frame", "frameset", "object", "embed",
	"form", "input", "button", "textarea", "select", "svg", "math", "title", "noscript", "xmp", "plaintext", "template", "base", "link", "meta", "ScRiPt", "STYLE", "IFrame", "applet", "noembed", "annotation-xml", "foreignObject", "mglyph", "desc"}

var cssDecl = rapid.Custom(func(t *rapid.T) string {
	prop := rapid.SampledFrom([]string{"color", "width", "margin", "background-color", "font-family", "position", "behavior", "-moz-binding", "background", "background-image", "z-index", "COLOR", "Position", `\70 osition`, `po\sition`, "pos/**/ition", "top", "left", "float", "--x", "content", "display",
		"border/**/-image", "color/**/-scheme", "margin/*x*/-inline-start", "overflow/* */-x", "width/**//**/-x", "display/**/\\2d x", "border-/**/image"}).Draw(t, "prop")
	val := rapid.SampledFrom([]string{"red", "1px", "fixed", "url(javascript:alert(1))", "expression(alert(1))", "'a;position:fixed'", "\"x", "red&#59position:fixed", "red&#x3b;top:0", "red&amp;#59left:0", "red&#38;#59;z-index:9", "\"a&#34;;behavior:url(x)", `"a\'; position: fixed; top:0; \'"`, `'a\"; position:fixed; left:0; \"'`, `"\\'; top:0; '"`, `"a\\"; behavior:url(x); "`, "(a;b)", "{a:b}", "0 !important", "url('x')", `x\;y`, "a/*;*/b", "\n", "1;",
		// a malformed url( ends, for a browser, at the first ')' whatever quotes it contains
		"url(a '", "url(a \"", "URL(x '", `u\72l(a '`, "url(a(", "')", "\")", "url(a ');position:fixed;color:')",
		// a hex escape may be ended by one white-space character that belongs to it: these all spell url(
		`u\72 l(a ');position:fixed;color:')`, `\75 rl(a ');position:fixed;color:')`, "u\\72\tl(a \");position:fixed;color:\")", `ur\6c (a ');top:0;color:')`, `\000075rl(a ');left:0;color:')`, `u\72 l(a '`}).Draw(t, "val")
	sep := rapid.SampledFrom([]string{":", ": ", " : ", "/**/:", ":/**/"}).Draw(t, "sep")
	return prop + sep + val
})

var styleGen = rapid.Custom(func(t *rapid.T) string {
	n := rapid.IntRange(1, 4).Draw(t, "ndecl")
	var parts []string
	for i := 0; i < n; i++ {
		switch rapid.IntRange(0, 9).Draw(t, "dkind") {
		case 0, 1:
			parts = append(parts, rapid.SampledFrom([]string{"@import 'x'", "@media all {position:fixed}", "/* c */", "*zoom:1", "}{", "color red", "<!--", "-->", "'", "\\",
				// tokens a declaration cannot start with, carrying a comment terminator and a declaration of their own: whatever the
				// sanitiser writes in their place must not let that text out as CSS
				`"*/top:0;"`, `'*/left:0;'`, `"*/top:0;/*"`, `*/top:0`, `"*/z-index:9;"`, `#x*/top:0;`, `url(*/top:0;)`, `"\"*/top:0;"`, `12*/top:0`}).Draw(t, "odd"))
		default:
			parts = append(parts, cssDecl.Draw(t, "decl"))
		}
	}
	return strings.Join(parts, rapid.SampledFrom([]string{";", "; ", ";;", " ; ", ";\n"}).Draw(t, "sep"))
})

var attrGen = rapid.Custom(func(t *rapid.T) string {
	var k, v string
	switch rapid.IntRange(0, 9).Draw(t, "akind") {
	case 0, 1:
		k = rapid.SampledFrom([]string{"onclick", "onerror", "onload", "ONMOUSEOVER", "onfocus", "on", "onanimationstart"}).Draw(t, "on")
		v = "alert(1)"
	case 2, 3:
		k = rapid.SampledFrom([]string{"href", "src", "action", "formaction", "background", "poster", "xlink:href", "data", "HREF", "srcdoc", "cite"}).Draw(t, "urlattr")
		v = rapid.SampledFrom([]string{"javascript:alert(1)", "JaVaScRiPt:alert(1)", " javascript:alert(1)", "\x01javascript:alert(1)", "java\tscript:alert(1)", "java\nscript:x", "&#106;avascript:alert(1)", "&#x6A;avascript:x", "javascript&colon;x", "http://example.com/", "/relative", "data:text/html,<script>alert(1)</script>", "vbscript:x", "mailto:a@b"}).Draw(t, "url")
	case 4, 5, 6:
		k = rapid.SampledFrom([]string{"style", "STYLE", "Style"}).Draw(t, "stylek")
		v = styleGen.Draw(t, "style")
	default:
		k = rapid.SampledFrom([]string{"class", "id", "title", "align", "width", "target", "name", "type", "x"}).Draw(t, "plain")
		v = rapid.SampledFrom([]string{"a", "1", "x y", "", "<b>", "\">", "'",
			// quotes that exist only as character references: a sanitiser that writes a decoded value back
			// without re-escaping it lets the rest of the value become attributes
			`" style="position:fixed;top:0;left:0" lang="aaaaaaaaaaaaaaaaaaaaaaaaaaaaaaaaaaaaaaaa`,
			`&#34; style=&#34;position:fixed&#34; lang=&#34;aaaaaaaaaaaaaaaaaaaaaaaaaaaaaaaa`,
			`&quot; onclick=&quot;alert(1)&quot; lang=&quot;aaaaaaaaaaaaaaaaaaaaaaaaaaaaaaaa`,
			`x&amp;y&lt;z`, `&#39; style=&#39;behavior:url(x)&#39; lang=&#39;aaaaaaaaaaaaaaaaaaaa`}).Draw(t, "pv")
	}
	// the tokenizer allows white space around '=': a sanitiser that looks for "name=" must too
	eq := rapid.SampledFrom([]string{"=", "=", "=", " =", "= ", " = ", "\n=", "\t=\t", "\f="}).Draw(t, "eq")
	switch rapid.IntRange(0, 4).Draw(t, "quote") {
	case 0:
		return k + eq + strings.ReplaceAll(v, " ", "")
	case 1:
		return k + eq + "'" + strings.ReplaceAll(v, "'", "") + "'"
	case 2:
		return k
	}
	return k + eq + `"` + strings.ReplaceAll(v, `"`, "&quot;") + `"`
})

func nodeGen(depth int) *rapid.Generator[string] {
	return rapid.Custom(func(t *rapid.T) string {
		switch rapid.IntRange(0, 9).Draw(t, "nkind") {
		case 0:
			return rapid.SampledFrom([]string{"text", "a &amp; b", "&lt;script&gt;", "x < y", "<!-- c -->", "<!--><script>alert(1)</script>-->", "<![CDATA[<script>x</script>]]>", "<?php x ?>", "<!DOCTYPE x>", "</div>", "</p></script>", "<", "<a", "<img src=x onerror=alert(1)", "<svg><style><img src=x onerror=alert(1)></style></svg>", "<math><mtext><table><mglyph><style><img src=x onerror=alert(1)>", "<noscript><p title=\"</noscript><img src=x onerror=alert(1)>\">", "<select><style></select><img src=x onerror=alert(1)>"}).Draw(t, "frag")
		}
		tag := rapid.SampledFrom(tagNames).Draw(t, "tag")
		var sb strings.Builder
		sb.WriteString("<" + tag)
		na := rapid.IntRange(0, 3).Draw(t, "nattr")
		for i := 0; i < na; i++ {
			sb.WriteString(rapid.SampledFrom([]string{" ", " ", "\n", "/", "\t"}).Draw(t, "asep"))
			sb.WriteString(attrGen.Draw(t, "attr"))
		}
		switch rapid.IntRange(0, 9).Draw(t, "close") {
		case 0:
			sb.WriteString("/>")
			return sb.String()
		case 1:
			return sb.String() // unterminated tag
		}
		sb.WriteString(">")
		if depth > 0 {
			nc := rapid.IntRange(0, 3).Draw(t, "nchild")
			for i := 0; i < nc; i++ {
				sb.WriteString(nodeGen(depth-1).Draw(t, "child"))
			}
		} else {
			sb.WriteString(rapid.SampledFrom([]string{"", "x", "alert(1)", "body{position:fixed}"}).Draw(t, "leaf"))
		}
		if rapid.IntRange(0, 5).Draw(t, "endtag") > 0 {
			sb.WriteString("</" + tag + ">")
		}
		return sb.String()
	})
}

type HCase struct {
	HTML string `json:"html"`
	// Huge, when set, inserts one very large token ("kind:size:position") into HTML when the case
	// runs: a text run, comment, attribute value, unterminated attribute or raw-text element body
	// of size bytes. Messages are megabytes; no single construct may be too large to sanitise.
	Huge string `json:"huge,omitempty"`
}

func (c HCase) input() string {
	if c.Huge == "" {
		return c.HTML
	}
	f := strings.SplitN(c.Huge, ":", 3)
	n, _ := strconv.Atoi(f[1])
	pos, _ := strconv.Atoi(f[2])
	fill := strings.Repeat("abcdefg ", n/8+1)[:n]
	var tok string
	switch f[0] {
	case "text":
		tok = fill
	case "comment":
		tok = "<!--" + fill + "-->"
	case "attr":
		tok = `<img alt="` + fill + `" src="x">`
	case "openattr":
		tok = `<p title="` + fill
	case "script":
		tok = "<script>" + fill + "</script>"
	default:
		tok = `<a href="http://example.com/` + strings.ReplaceAll(fill, " ", "+") + `">x</a>`
	}
	if pos > len(c.HTML) {
		pos = len(c.HTML)
	}
	return c.HTML[:pos] + tok + c.HTML[pos:]
}

func runHTML(c HCase) *hx.Outcome {
	o := &hx.Outcome{}
	if c.Huge != "" {
		c = HCase{HTML: c.input()}
		o.Class("one very large token")
	}
	out, err := sanitize.HTML(c.HTML)
	if err != nil {
		o.Failf(pid+":sanitize-error", "sanitize.HTML failed: %v; input %.300q", err, c.HTML)
		return o
	}
	checkSafe(o, c.HTML, out)
	o.NonTrivial = dangerous(c.HTML)
	if out != c.HTML {
		o.Class("sanitiser changed the input")
	}
	return o
}

var propHTML = hx.Prop[HCase]{
	ID: pid, Name: "html",
	Rule: "HTML from a grammar: nested/unterminated/mis-nested tags over benign and dangerous elements (script, style, iframe, frames, object, " +
		"embed, form and controls, svg/math/noscript/select foreign-content and raw-text contexts, mixed case), attributes in all quoting " +
		"styles incl. on* handlers, URL attributes with obfuscated javascript: (case, control chars, tab/newline, entities), style values " +
		"from a CSS grammar (allowed/disallowed/escaped property names, comments, strings with ';', blocks, at-rules, unterminated); a " +
		"quarter of the inputs additionally get a token the sanitiser removes (comment, bogus comment, empty script/style/iframe, unknown tag, " +
		"NUL) spliced in at a random offset, mostly right after a '<'; the " +
		"output of sanitize.HTML is re-parsed with x/net/html's tokenizer AND tree builder and must have no forbidden element, no on* " +
		"attribute, no javascript: URL, and style declarations (independent CSS Syntax L3 declaration-list parser) only on the allow-list; " +
		"nil error, no panic; non-trivial = input contains a dangerous construct",
	Quick: 20000, Thorough: 150000,
	Gen: func(t *rapid.T) HCase {
		n := rapid.IntRange(1, 3).Draw(t, "ntop")
		var sb strings.Builder
		for i := 0; i < n; i++ {
			sb.WriteString(nodeGen(2).Draw(t, "node"))
		}
		c := HCase{HTML: sb.String()}
		if rapid.IntRange(0, 3).Draw(t, "splice") == 0 && len(c.HTML) > 0 {
			// something the sanitiser removes, put in the middle of something else: what is left
			// when it is gone must not close up into markup that was never judged
			var afterLT []int
			for i := 1; i <= len(c.HTML); i++ {
				if c.HTML[i-1] == '<' {
					afterLT = append(afterLT, i)
				}
			}
			pos := rapid.IntRange(0, len(c.HTML)).Draw(t, "splicepos")
			if len(afterLT) > 0 && rapid.IntRange(0, 2).Draw(t, "spliceafterlt") > 0 {
				pos = afterLT[rapid.IntRange(0, len(afterLT)-1).Draw(t, "splicelt")]
			}
			tok := rapid.SampledFrom([]string{"<!-- -->", "<!---->", "<!x>", "<?x>", "<!-- c -->", "<script></script>", "<style></style>", "<x>", "</x>",
				"<iframe></iframe>", "\x00", "<![CDATA[]]>", "<script>", "</script>"}).Draw(t, "splicetok")
			c.HTML = c.HTML[:pos] + tok + c.HTML[pos:]
		}
		if rapid.IntRange(0, 199).Draw(t, "huge") == 0 {
			c.Huge = fmt.Sprintf("%s:%d:%d", rapid.SampledFrom([]string{"text", "comment", "attr", "openattr", "script", "href"}).Draw(t, "hkind"),
				rapid.SampledFrom([]int{4000, 32768, 65536, 70000, 300000}).Draw(t, "hsize"), rapid.SampledFrom([]int{0, 0, 1 << 30}).Draw(t, "hpos"))
		}
		return c
	},
	Run: runHTML,
}

// ---- style attribute alone (denser search of the CSS corner) ----

type SCase struct {
	Style string `json:"style"`
	Quote string `json:"quote"`
	Name  string `json:"name"` // attribute name and '=' as written: "style=", "STYLE =", ...
}

var propStyle = hx.Prop[SCase]{
	ID: pid, Name: "style",
	Rule: "a single element carrying a generated style attribute (1-4 declarations/odd fragments from the CSS grammar, free-form tails), " +
		"same oracle; non-trivial = the style mentions a property outside the allow-list",
	Quick: 20000, Thorough: 150000,
	Gen: func(t *rapid.T) SCase {
		s := styleGen.Draw(t, "style")
		if rapid.IntRange(0, 3).Draw(t, "tail") == 0 {
			s += rapid.StringOfN(rapid.SampledFrom([]rune(`pos:;{}()'"\/*@! -ition`+"\n")), 0, 12, -1).Draw(t, "tailv")
		}
		return SCase{Style: s, Quote: rapid.SampledFrom([]string{`"`, `'`}).Draw(t, "quote"),
			Name: rapid.SampledFrom([]string{"style=", "style=", "STYLE=", "Style =", "style = ", "style\n=", "sTyLe\t="}).Draw(t, "name")}
	},
	Run: func(c SCase) *hx.Outcome {
		esc := strings.ReplaceAll(strings.ReplaceAll(c.Style, "&", "&amp;"), c.Quote, map[string]string{`"`: "&quot;", `'`: "&#39;"}[c.Quote])
		in := "<div " + c.Name + c.Quote + esc + c.Quote + ">x</div>"
		o := runHTML(HCase{HTML: in})
		nt := false
		for _, p := range DeclaredProperties(c.Style) {
			if !allowed[p] {
				nt = true
			}
		}
		o.NonTrivial = nt
		return o
	},
}

// ---- plain text rendering ----

type TCase struct {
	Text string `json:"text"`
}

func runText(c TCase) *hx.Outcome {
	o := &hx.Outcome{}
	out := web.TextToHTML(c.Text)
	fail := func(key, f string, a ...interface{}) {
		o.Failf(pid+":"+key, "%s; text %.200q output %.300q", fmt.Sprintf(f, a...), c.Text, out)
	}
	z := html.NewTokenizer(strings.NewReader(out))
	var text strings.Builder
	depth := 0
	for {
		tt := z.Next()
		if tt == html.ErrorToken {
			break
		}
		tok := z.Token()
		switch tt {
		case html.TextToken:
			text.WriteString(tok.Data)
		case html.SelfClosingTagToken:
			if tok.Data != "br" || len(tok.Attr) != 0 {
				fail("text-markup", "unexpected element <%s/>", tok.Data)
			}
		case html.StartTagToken:
			if tok.Data != "a" {
				fail("text-markup", "unexpected element <%s>", tok.Data)
				break
			}
			depth++
			if len(tok.Attr) != 2 || tok.Attr[0].Key != "href" || tok.Attr[1].Key != "target" || tok.Attr[1].Val != "_blank" {
				fail("text-anchor", "anchor with attributes %v, expected exactly href and target=_blank", tok.Attr)
			}
		case html.EndTagToken:
			if tok.Data != "a" {
				fail("text-markup", "unexpected end tag </%s>", tok.Data)
			}
			depth--
		default:
			fail("text-markup", "unexpected token %v", tt)
		}
	}
	want := strings.NewReplacer("\r\n", "\n", "\r", "\n").Replace(c.Text)
	got := strings.NewReplacer("\r\n", "\n", "\r", "\n").Replace(text.String())
	if got != want {
		fail("text-content", "rendered text %.200q differs from the original %.200q", got, want)
	}
	o.NonTrivial = strings.ContainsAny(c.Text, "<>&\"'") || strings.Contains(c.Text, "://") || strings.Contains(c.Text, "www.")
	return o
}

var propText = hx.Prop[TCase]{
	ID: pid, Name: "text",
	Rule: "text from fragments (markup characters, quotes, entities, URLs with query strings/parentheses/quotes, www. names, javascript: and " +
		"data: schemes, CR/LF/CRLF, unicode); web.TextToHTML's token stream may contain only text, <br/>, <a href target=_blank> and </a>, and " +
		"its concatenated unescaped text must equal the input with CRLF/CR read as LF; non-trivial = text contains markup characters or a URL",
	Quick: 10000, Thorough: 100000,
	Gen: func(t *rapid.T) TCase {
		n := rapid.IntRange(0, 8).Draw(t, "n")
		var sb strings.Builder
		for i := 0; i < n; i++ {
			if rapid.IntRange(0, 3).Draw(t, "free") == 0 {
				sb.WriteString(rapid.StringOfN(rapid.Rune(), 0, 10, -1).Filter(func(s string) bool { return !strings.Contains(s, "\x00") }).Draw(t, "s"))
				continue
			}
			sb.WriteString(rapid.SampledFrom([]string{"hello ", "<script>alert(1)</script>", "<b>", "&amp;", "&", "\"", "'", "\r\n", "\n", "\r", " ", "http://example.com/a?b=c&d=e", "https://x.test/(paren)", "www.example.com", "example.com/path", "javascript:alert(1)", "http://a.test/\"onmouseover=\"alert(1)", "http://a.test/'><script>", "mailto:a@b.c", "ftp://h/p", "http://é.test/ü", "(http://x.test/)", "http://x.test/a<b", "x:y", "a.bc/d"}).Draw(t, "frag"))
		}
		return TCase{Text: sb.String()}
	},
	Run: runText,
}

func TestProp(t *testing.T) {
	t.Run("html", propHTML.Check)
	t.Run("style", propStyle.Check)
	t.Run("text", propText.Check)
}
func TestRegress(t *testing.T) { propHTML.Regress(t); propStyle.Regress(t); propText.Regress(t) }
func TestReplay(t *testing.T) {
	if *hx.ReplayPath == "" {
		t.Skip("no -replay")
	}
	if !propHTML.Replay(t, *hx.ReplayPath) && !propStyle.Replay(t, *hx.ReplayPath) && !propText.Replay(t, *hx.ReplayPath) {
		t.Fatalf("no prop matches %s", *hx.ReplayPath)
	}
}
func TestMain(m *testing.M) { hx.Main(m) }

func fuzzFail(t *testing.T, o *hx.Outcome) {
	for _, v := range o.Viols {
		if _, known := hx.Known()[v.Key]; !known {
			t.Fatalf("%s", v.Error())
		}
	}
}

func FuzzSanitizeHTML(f *testing.F) {
	for _, s := range []string{`<p style="color: red">x</p>`, `<IMG SRC=javascript:alert('XSS')>`, `<a href="jav&#x09;ascript:alert(1)">x</a>`,
		`<div style="position:fixed;color:red">`, `<svg><style><img src=x onerror=alert(1)>`, `<scr<script>ipt>alert(1)</script>`,
		`<div style="background:url(javascript:alert(1))">`, `<p style='\70 osition:fixed'>`, `<math><mi//xlink:href="data:x,<script>alert(1)</script>">`,
		`<table background="javascript:alert(1)">`, `<p style="color:red;/*">*/position:fixed">`, `<style>@import 'x';</style>`, `<form action=x><input name=y>`} {
		f.Add(s)
	}
	f.Fuzz(func(t *testing.T, s string) {
		if len(s) > 4096 {
			return
		}
		fuzzFail(t, runHTML(HCase{HTML: s}))
	})
}

func FuzzTextToHTML(f *testing.F) {
	for _, s := range []string{"hello", "http://example.com/?a=b&c=d", "<script>", "www.x.com\r\nnext", "http://a/\"x", "a\rb"} {
		f.Add(s)
	}
	f.Fuzz(func(t *testing.T, s string) {
		if len(s) > 2048 || strings.Contains(s, "\x00") {
			return
		}
		fuzzFail(t, runText(TCase{Text: s}))
	})
}
