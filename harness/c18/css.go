package c18

import (
	"strings"
	"unicode/utf8"
)

// An independent implementation of the part of CSS Syntax Level 3 a browser applies to a
// style attribute: "parse a list of declarations". It returns the property names (escapes
// resolved, lower-cased) of all declarations the algorithm yields.

type cssParser struct {
	s   []rune
	pos int
}

func isNameStart(r rune) bool {
	return r == '_' || r >= 0x80 || (r >= 'a' && r <= 'z') || (r >= 'A' && r <= 'Z')
}
func isName(r rune) bool { return isNameStart(r) || r == '-' || (r >= '0' && r <= '9') }
func isHex(r rune) bool {
	return (r >= '0' && r <= '9') || (r >= 'a' && r <= 'f') || (r >= 'A' && r <= 'F')
}
func isWS(r rune) bool { return r == ' ' || r == '\t' || r == '\n' }

func preprocess(in string) []rune {
	// CSS input preprocessing: CRLF, CR, FF -> LF; NUL -> U+FFFD
	in = strings.ReplaceAll(in, "\r\n", "\n")
	in = strings.ReplaceAll(in, "\r", "\n")
	in = strings.ReplaceAll(in, "\f", "\n")
	in = strings.ReplaceAll(in, "\x00", "�")
	if !utf8.ValidString(in) {
		in = strings.ToValidUTF8(in, "�")
	}
	return []rune(in)
}

func (p *cssParser) peek(n int) rune {
	if p.pos+n < len(p.s) {
		return p.s[p.pos+n]
	}
	return -1
}

func (p *cssParser) validEscape(off int) bool {
	return p.peek(off) == '\\' && p.peek(off+1) != '\n' && p.peek(off+1) != -1
}

func (p *cssParser) wouldStartIdent() bool {
	c := p.peek(0)
	switch {
	case c == '-':
		return isNameStart(p.peek(1)) || p.peek(1) == '-' || p.validEscape(1)
	case isNameStart(c):
		return true
	case c == '\\':
		return p.validEscape(0)
	}
	return false
}

func (p *cssParser) consumeEscape() rune {
	// after the backslash
	c := p.peek(0)
	if c == -1 {
		return 0xFFFD
	}
	if isHex(c) {
		v := 0
		n := 0
		for n < 6 && isHex(p.peek(0)) {
			d := p.peek(0)
			switch {
			case d >= '0' && d <= '9':
				v = v*16 + int(d-'0')
			case d >= 'a' && d <= 'f':
				v = v*16 + int(d-'a') + 10
			default:
				v = v*16 + int(d-'A') + 10
			}
			p.pos++
			n++
		}
		if isWS(p.peek(0)) {
			p.pos++
		}
		if v == 0 || v > 0x10FFFF || (v >= 0xD800 && v <= 0xDFFF) {
			return 0xFFFD
		}
		return rune(v)
	}
	p.pos++
	return c
}

func (p *cssParser) consumeName() string {
	var b strings.Builder
	for {
		c := p.peek(0)
		switch {
		case isName(c):
			b.WriteRune(c)
			p.pos++
		case p.validEscape(0):
			p.pos++
			b.WriteRune(p.consumeEscape())
		default:
			return b.String()
		}
	}
}

func (p *cssParser) skipComments() {
	for p.peek(0) == '/' && p.peek(1) == '*' {
		p.pos += 2
		for p.pos < len(p.s) && !(p.peek(0) == '*' && p.peek(1) == '/') {
			p.pos++
		}
		if p.pos < len(p.s) {
			p.pos += 2
		}
	}
}

func (p *cssParser) skipWS() {
	for {
		p.skipComments()
		if isWS(p.peek(0)) {
			p.pos++
			continue
		}
		return
	}
}

func (p *cssParser) consumeString(q rune) {
	// after the opening quote
	for p.pos < len(p.s) {
		c := p.peek(0)
		switch {
		case c == q:
			p.pos++
			return
		case c == '\n':
			return // bad-string: the newline is not consumed
		case c == '\\':
			if p.peek(1) == -1 {
				p.pos++
			} else if p.peek(1) == '\n' {
				p.pos += 2
			} else {
				p.pos++
				p.consumeEscape()
			}
		default:
			p.pos++
		}
	}
}

// consumeComponent consumes one component value (a preserved token, a block or a function).
func (p *cssParser) consumeComponent() {
	p.skipComments()
	c := p.peek(0)
	switch {
	case c == -1:
	case c == '"' || c == '\'':
		p.pos++
		p.consumeString(c)
	case c == '{' || c == '[' || c == '(':
		p.pos++
		p.consumeBlock(map[rune]rune{'{': '}', '[': ']', '(': ')'}[c])
	case p.wouldStartIdent():
		name := p.consumeName()
		if p.peek(0) == '(' {
			p.pos++
			if strings.EqualFold(name, "url") {
				// url( with unquoted content is one token up to ')'
				save := p.pos
				for isWS(p.peek(0)) {
					p.pos++
				}
				if q := p.peek(0); q == '"' || q == '\'' {
					p.pos = save
					p.consumeBlock(')')
				} else {
					for p.pos < len(p.s) && p.peek(0) != ')' {
						if p.peek(0) == '\\' && p.peek(1) != -1 {
							p.pos++
						}
						p.pos++
					}
					if p.pos < len(p.s) {
						p.pos++
					}
				}
			} else {
				p.consumeBlock(')')
			}
		}
	case c == '\\' && !p.validEscape(0):
		p.pos++
	default:
		p.pos++
	}
}

func (p *cssParser) consumeBlock(end rune) {
	for p.pos < len(p.s) {
		p.skipComments()
		if p.peek(0) == end {
			p.pos++
			return
		}
		if p.peek(0) == -1 {
			return
		}
		p.consumeComponent()
	}
}

// untilSemicolon consumes component values up to and including the next top-level ';'.
func (p *cssParser) untilSemicolon() {
	for p.pos < len(p.s) {
		p.skipComments()
		if p.peek(0) == ';' {
			p.pos++
			return
		}
		if p.peek(0) == -1 {
			return
		}
		p.consumeComponent()
	}
}

// DeclaredProperties parses style as a browser parses a style attribute.
func DeclaredProperties(style string) []string {
	p := &cssParser{s: preprocess(style)}
	var props []string
	for p.pos < len(p.s) {
		p.skipWS()
		c := p.peek(0)
		switch {
		case c == -1:
			return props
		case c == ';':
			p.pos++
		case c == '@':
			// at-rule: consume up to ';' or a {}-block
			p.pos++
			for p.pos < len(p.s) {
				p.skipComments()
				if p.peek(0) == ';' {
					p.pos++
					break
				}
				if p.peek(0) == '{' {
					p.pos++
					p.consumeBlock('}')
					break
				}
				if p.peek(0) == -1 {
					break
				}
				p.consumeComponent()
			}
		case p.wouldStartIdent():
			name := p.consumeName()
			if p.peek(0) == '(' {
				// a function token is not a declaration start: parse error, skip
				p.pos++
				p.consumeBlock(')')
				p.untilSemicolon()
				continue
			}
			p.skipWS()
			if p.peek(0) != ':' {
				p.untilSemicolon()
				continue
			}
			p.pos++
			props = append(props, strings.ToLower(name))
			p.untilSemicolon()
		default:
			p.untilSemicolon()
		}
	}
	return props
}
