package c18

import (
	"reflect"
	"testing"
)

func TestDeclaredPropertiesSelf(t *testing.T) {
	for in, want := range map[string][]string{
		"color: red":                         {"color"},
		"color:red;position:fixed":           {"color", "position"},
		"/*x*/ color /**/ : red":             {"color"},
		`\70 osition: fixed`:                 {"position"},
		`po\sition:fixed`:                    {"position"},
		"a: 'x;y'; b: 1":                     {"a", "b"},
		"a: (x;y); b: 1":                     {"a", "b"},
		"a: {x;y:z}; b: 1":                   {"a", "b"},
		"@media x {a:b}; c: d":               {"c"},
		"color red; b: 1":                    {"b"},
		"a: 'unterminated\nb: 2; c: 3":       {"a", "c"},
		"a: url(x;y); b:1":                   {"a", "b"},
		";;; x : y":                          {"x"},
		"COLOR: red":                         {"color"},
		"-webkit-x: 1; --custom: {a;b}; z:1": {"-webkit-x", "--custom", "z"},
	} {
		if got := DeclaredProperties(in); !reflect.DeepEqual(got, want) {
			t.Errorf("%q: got %q want %q", in, got, want)
		}
	}
}
