package c17

import (
	"fmt"
	"net/mail"
	"strings"
	"sync"
	"testing"
	"time"

	"github.com/inbucket/inbucket/v3/pkg/extension"
	"github.com/inbucket/inbucket/v3/pkg/extension/event"
	"pgregory.net/rapid"
	"verif/harness/hx"
)

const pid = "C17"

// Out is what a handler does for addresses/subjects containing its token.
type Out struct {
	Kind string `json:"kind"` // allow deny denycode defer nil noreturn number string table boolean wrongud error rterror mutate-*
	Code int    `json:"code,omitempty"`
	Msg  string `json:"msg,omitempty"`
}

// Rule applies Out when the key (sender / last recipient / subject) contains Token.
type Rule struct {
	Token string `json:"token"`
	Out   Out    `json:"out"`
}

// Stored describes a before.message_stored behaviour.
type Stored struct {
	Kind      string    `json:"kind"` // keep rewrite new garbage error mutate-error mutate-garbage mutate-nil
	Mailboxes []string  `json:"mailboxes,omitempty"`
	SetBoxes  bool      `json:"set_boxes,omitempty"`
	From      *hx.Addr  `json:"from,omitempty"`
	To        []hx.Addr `json:"to,omitempty"`
	SetTo     bool      `json:"set_to,omitempty"`
	Subject   string    `json:"subject,omitempty"`
	SetSubj   bool      `json:"set_subject,omitempty"`
}

type SRule struct {
	Token string `json:"token"`
	Do    Stored `json:"do"`
}

// Script is the generated program: decision tables for the five handlers.
type Script struct {
	MailFrom   []Rule  `json:"mail_from,omitempty"`
	HasMail    bool    `json:"has_mail"`
	RcptTo     []Rule  `json:"rcpt_to,omitempty"`
	HasRcpt    bool    `json:"has_rcpt"`
	Stored     []SRule `json:"stored,omitempty"`
	HasStored  bool    `json:"has_stored"`
	AfterStore string  `json:"after_stored,omitempty"` // "", "ok", "error"
	AfterDel   string  `json:"after_deleted,omitempty"`
	// UseGlobal makes the before-handlers keep the address they decide on in a script-level
	// global (no 'local'), spin, and then decide from the global: harmless as long as every
	// session's handler call runs on a Lua state of its own.
	UseGlobal bool   `json:"use_global,omitempty"`
	GoFirst   []Rule `json:"go_first,omitempty"` // Go listener registered before the Lua host (MAIL and RCPT)
	GoLast    []Rule `json:"go_last,omitempty"`  // Go listener registered after it
	// Probe: a Go listener that never answers is registered before all others on the three
	// before-events and, once everything is wired, removed ("remove") or registered again under
	// its name ("readd"), or registered again continuously while the dialogues run ("churn"): the
	// order of the listeners that do answer must be what it was.
	Probe string `json:"probe,omitempty"`
}

var tokens = []string{"aa", "bb", "cc", "dd", "ee"}

func luaOut(o Out) string {
	switch o.Kind {
	case "allow":
		return "return smtp.allow()"
	case "deny":
		return "return smtp.deny()"
	case "denycode":
		return fmt.Sprintf("return smtp.deny(%d, %q)", o.Code, o.Msg)
	case "defer":
		return "return smtp.defer()"
	case "nil":
		return "return nil"
	case "noreturn":
		return "do return end"
	case "number":
		return "return 42"
	case "string":
		return `return "allow"`
	case "table":
		return `return {action = "allow"}`
	case "boolean":
		return "return true"
	case "wrongud":
		return `return address.new("n", "a@b.test")`
	case "error":
		return `error("boom")`
	case "rterror":
		return "local nothing = nil; return nothing.field"
	case "mutate-error", "mutate-nil", "mutate-garbage":
		// edits the envelope it was shown, then does not answer: nothing of it may stick
		edit := `pcall(function() session.from.address = "forged@evil.test"; session.from.name = "Forged" end); ` +
			`pcall(function() if session.to[1] then session.to[1].address = "forged-rcpt@evil.test" end end); `
		return edit + map[string]string{"mutate-error": `error("boom")`, "mutate-nil": "return nil", "mutate-garbage": "return 42"}[o.Kind]
	}
	return "return nil"
}

func luaAddr(a hx.Addr) string { return fmt.Sprintf("address.new(%q, %q)", a.Name, a.Address) }

func luaStored(d Stored) string {
	var b strings.Builder
	target := "msg"
	if d.Kind == "new" {
		b.WriteString("local m2 = inbound_message.new(); ")
		target = "m2"
	}
	set := func() {
		if d.SetBoxes {
			var l []string
			for _, m := range d.Mailboxes {
				l = append(l, fmt.Sprintf("%q", m))
			}
			fmt.Fprintf(&b, "%s.mailboxes = {%s}; ", target, strings.Join(l, ", "))
		}
		if d.From != nil {
			fmt.Fprintf(&b, "%s.from = %s; ", target, luaAddr(*d.From))
		}
		if d.SetTo {
			var l []string
			for _, a := range d.To {
				l = append(l, luaAddr(a))
			}
			fmt.Fprintf(&b, "%s.to = {%s}; ", target, strings.Join(l, ", "))
		}
		if d.SetSubj {
			fmt.Fprintf(&b, "%s.subject = %q; ", target, d.Subject)
		}
	}
	mutate := func() {
		b.WriteString(`msg.subject = "hacked"; msg.mailboxes = {"elsewhere"}; `)
		b.WriteString(`if msg.from then msg.from.address = "evil@evil.test"; msg.from.name = "Evil" end; `)
		b.WriteString(`if msg.to[1] then msg.to[1].address = "evil-to@evil.test" end; `)
	}
	switch d.Kind {
	case "keep":
		b.WriteString("return nil")
	case "rewrite":
		set()
		b.WriteString("return msg")
	case "new":
		set()
		b.WriteString("return m2")
	case "inplace":
		// edits through the accessors, then hands the message back: the edits are the hook's answer
		b.WriteString(`if msg.to[1] then msg.to[1].address = "inplace-to@a.test"; msg.to[1].name = "In Place" end; `)
		b.WriteString(`if msg.from then msg.from.address = "inplace-from@a.test" end; `)
		b.WriteString("return msg")
	case "garbage":
		b.WriteString("return 42")
	case "error":
		b.WriteString(`error("stored boom")`)
	case "mutate-error":
		mutate()
		b.WriteString(`error("after mutation")`)
	case "mutate-garbage":
		mutate()
		b.WriteString(`return "garbage"`)
	case "mutate-nil":
		mutate()
		b.WriteString("return nil")
	}
	return b.String()
}

// Lua renders the script.
func (s Script) Lua() string {
	var b strings.Builder
	table := func(rules []Rule, key string) {
		if s.UseGlobal {
			fmt.Fprintf(&b, "  scratch = %s\n  for i = 1, 3000 do spin = i end\n  local a = scratch\n", key)
		} else {
			fmt.Fprintf(&b, "  local a = %s\n", key)
		}
		for _, r := range rules {
			fmt.Fprintf(&b, "  if string.find(a, %q, 1, true) then %s end\n", r.Token, luaOut(r.Out))
		}
		b.WriteString("  return nil\nend\n")
	}
	if s.HasMail {
		b.WriteString("function inbucket.before.mail_from_accepted(session)\n")
		table(s.MailFrom, "session.from.address")
	}
	if s.HasRcpt {
		b.WriteString("function inbucket.before.rcpt_to_accepted(session)\n")
		table(s.RcptTo, "session.to[#session.to].address")
	}
	if s.HasStored {
		b.WriteString("function inbucket.before.message_stored(msg)\n  local a = msg.subject\n")
		for _, r := range s.Stored {
			fmt.Fprintf(&b, "  if string.find(a, %q, 1, true) then %s end\n", r.Token, luaStored(r.Do))
		}
		b.WriteString("  return nil\nend\n")
	}
	after := func(name, mode string) {
		if mode == "" {
			return
		}
		fmt.Fprintf(&b, "function inbucket.after.%s(msg)\n", name)
		if mode == "error" {
			b.WriteString("  error(\"after boom\")\n")
		} else {
			b.WriteString("  local x = msg.mailbox .. msg.id\n")
		}
		b.WriteString("end\n")
	}
	after("message_stored", s.AfterStore)
	after("message_deleted", s.AfterDel)
	return b.String()
}

// answer evaluates a decision table the way the statement describes: deny/allow answer,
// everything else (defer, nil, garbage, error) is "no answer".
func answer(rules []Rule, key string) (Out, bool) {
	for _, r := range rules {
		if strings.Contains(key, r.Token) {
			switch r.Out.Kind {
			case "allow", "deny", "denycode":
				return r.Out, true
			case "defer":
				// a Defer response is an answer that says "use policy"; later hooks are not asked
				return r.Out, true
			}
			return Out{}, false
		}
	}
	return Out{}, false
}

func goListener(rules []Rule, last bool) func(event.SMTPSession) *event.SMTPResponse {
	return func(s event.SMTPSession) *event.SMTPResponse {
		key := ""
		if last && len(s.To) > 0 {
			key = s.To[len(s.To)-1].Address
		} else if s.From != nil {
			key = s.From.Address
		}
		for _, r := range rules {
			if strings.Contains(key, r.Token) {
				switch r.Out.Kind {
				case "allow":
					return &event.SMTPResponse{Action: event.ActionAllow}
				case "deny":
					return &event.SMTPResponse{Action: event.ActionDeny, ErrorCode: 550, ErrorMsg: "Mail denied by policy"}
				case "denycode":
					return &event.SMTPResponse{Action: event.ActionDeny, ErrorCode: r.Out.Code, ErrorMsg: r.Out.Msg}
				case "defer":
					return &event.SMTPResponse{Action: event.ActionDefer}
				}
				return nil
			}
		}
		return nil
	}
}

// ---- generators ----

var outGen = rapid.Custom(func(t *rapid.T) Out {
	o := Out{Kind: rapid.SampledFrom([]string{"allow", "allow", "deny", "denycode", "denycode", "defer", "nil", "noreturn", "number", "string", "table", "boolean", "wrongud", "error", "rterror", "mutate-error", "mutate-nil", "mutate-garbage"}).Draw(t, "kind")}
	if o.Kind == "denycode" {
		o.Code = rapid.SampledFrom([]int{450, 451, 452, 550, 552, 553, 554, 421}).Draw(t, "code")
		o.Msg = rapid.SampledFrom([]string{"go away", "Try again later", "5.7.1 no", "x", "5.7.1 rejected: 100% spam score", "%s %d %v %!", "50%% off"}).Draw(t, "msg")
	}
	return o
})

func rulesGen(label string) *rapid.Generator[[]Rule] {
	return rapid.Custom(func(t *rapid.T) []Rule {
		n := rapid.IntRange(1, 3).Draw(t, label+"n")
		var l []Rule
		for i := 0; i < n; i++ {
			// the empty token is found in every address, the null reverse-path included
			l = append(l, Rule{Token: rapid.SampledFrom(append([]string{""}, tokens...)).Draw(t, label+"tok"), Out: outGen.Draw(t, label+"out")})
		}
		return l
	})
}

var addrG = rapid.Custom(func(t *rapid.T) hx.Addr {
	return hx.Addr{Name: rapid.SampledFrom([]string{"", "New Name"}).Draw(t, "n"), Address: rapid.SampledFrom([]string{"new@a.test", "other@b.test"}).Draw(t, "a")}
})

var storedGen = rapid.Custom(func(t *rapid.T) Stored {
	d := Stored{Kind: rapid.SampledFrom([]string{"keep", "rewrite", "rewrite", "new", "inplace", "inplace", "garbage", "error", "mutate-error", "mutate-error", "mutate-garbage", "mutate-nil"}).Draw(t, "skind")}
	if d.Kind == "rewrite" || d.Kind == "new" {
		if rapid.Bool().Draw(t, "setboxes") {
			d.SetBoxes = true
			d.Mailboxes = rapid.SliceOfNDistinct(rapid.SampledFrom([]string{"redir1", "redir2", "redir3"}), 0, 2, func(s string) string { return s }).Draw(t, "boxes")
		}
		if rapid.Bool().Draw(t, "setfrom") {
			a := addrG.Draw(t, "from")
			d.From = &a
		}
		if rapid.Bool().Draw(t, "setto") {
			d.SetTo = true
			d.To = rapid.SliceOfN(addrG, 0, 2).Draw(t, "to")
		}
		if rapid.Bool().Draw(t, "setsubj") {
			d.SetSubj = true
			d.Subject = rapid.SampledFrom([]string{"rewritten", ""}).Draw(t, "subj")
		}
	}
	return d
})

var scriptGen = rapid.Custom(func(t *rapid.T) Script {
	var s Script
	if s.HasMail = rapid.IntRange(0, 3).Draw(t, "hasmail") > 0; s.HasMail {
		s.MailFrom = rulesGen("mail").Draw(t, "mailrules")
	}
	if s.HasRcpt = rapid.IntRange(0, 3).Draw(t, "hasrcpt") > 0; s.HasRcpt {
		s.RcptTo = rulesGen("rcpt").Draw(t, "rcptrules")
	}
	if s.HasStored = rapid.IntRange(0, 3).Draw(t, "hasstored") > 0; s.HasStored {
		n := rapid.IntRange(1, 3).Draw(t, "nstored")
		for i := 0; i < n; i++ {
			s.Stored = append(s.Stored, SRule{Token: rapid.SampledFrom(tokens).Draw(t, "stok"), Do: storedGen.Draw(t, "sdo")})
		}
	}
	s.UseGlobal = rapid.IntRange(0, 2).Draw(t, "useglobal") == 0
	s.AfterStore = rapid.SampledFrom([]string{"", "", "ok", "error"}).Draw(t, "afterstored")
	s.AfterDel = rapid.SampledFrom([]string{"", "", "ok", "error"}).Draw(t, "afterdel")
	goOut := rapid.Custom(func(t *rapid.T) Out {
		o := Out{Kind: rapid.SampledFrom([]string{"allow", "deny", "denycode", "defer", "nil"}).Draw(t, "gokind")}
		if o.Kind == "denycode" {
			o.Code, o.Msg = 554, "go hook says no"
		}
		return o
	})
	if rapid.IntRange(0, 3).Draw(t, "gofirst") == 0 {
		s.GoFirst = []Rule{{Token: rapid.SampledFrom(tokens).Draw(t, "gftok"), Out: goOut.Draw(t, "gfout")}}
	}
	if rapid.IntRange(0, 3).Draw(t, "golast") == 0 {
		s.GoLast = []Rule{{Token: rapid.SampledFrom(tokens).Draw(t, "gltok"), Out: goOut.Draw(t, "glout")}}
	}
	if rapid.IntRange(0, 3).Draw(t, "chain") == 0 {
		// an explicit defer from the script, and a later Go listener that would decide otherwise
		// for the very same key: the chain must stop at the defer
		tok := rapid.SampledFrom(tokens).Draw(t, "chaintok")
		s.HasMail, s.HasRcpt = true, true
		s.MailFrom = append([]Rule{{Token: tok, Out: Out{Kind: "defer"}}}, s.MailFrom...)
		s.RcptTo = append([]Rule{{Token: tok, Out: Out{Kind: "defer"}}}, s.RcptTo...)
		last := Out{Kind: rapid.SampledFrom([]string{"deny", "denycode", "allow"}).Draw(t, "chainlast")}
		if last.Kind == "denycode" {
			last.Code, last.Msg = 554, "go hook says no"
		}
		s.GoLast = []Rule{{Token: tok, Out: last}}
	}
	s.Probe = rapid.SampledFrom([]string{"", "", "remove", "readd", "churn", "churn"}).Draw(t, "probe")
	return s
})

// Txn is one SMTP transaction of a dialogue.
type Txn struct {
	Sender  string   `json:"sender"`
	Rcpts   []string `json:"rcpts"`
	Subject string   `json:"subject"`
}

type Case struct {
	Script   Script  `json:"script"`
	Backend  string  `json:"backend"`
	Sessions [][]Txn `json:"sessions"`
	Parallel bool    `json:"parallel"`
}

func localGen(t *rapid.T, label string) string {
	n := rapid.IntRange(1, 2).Draw(t, label+"ntok")
	s := "u"
	for i := 0; i < n; i++ {
		s += rapid.SampledFrom(append([]string{"zz", "yy"}, tokens...)).Draw(t, label+"tok")
	}
	return s
}

var txnGen = rapid.Custom(func(t *rapid.T) Txn {
	x := Txn{Sender: localGen(t, "s") + "@" + rapid.SampledFrom([]string{"a.test", "a.test", "badorigin.test"}).Draw(t, "sdom")}
	if rapid.IntRange(0, 7).Draw(t, "nullpath") == 0 {
		x.Sender = "" // MAIL FROM:<>, the null reverse-path of bounces
	}
	n := rapid.IntRange(1, 4).Draw(t, "nrcpt")
	for i := 0; i < n; i++ {
		x.Rcpts = append(x.Rcpts, localGen(t, "r")+"@"+rapid.SampledFrom([]string{"a.test", "a.test", "rejected.test", "discard.test"}).Draw(t, "rdom"))
	}
	x.Subject = "subj " + localGen(t, "j")
	return x
})

var prop = hx.Prop[Case]{
	ID: pid, Name: "hooks",
	Rule: "Lua scripts generated from a handler grammar (any subset of the five handlers; before-handlers are decision tables keyed on a " +
		"token (sometimes the empty one, found in every address) in the sender (sometimes the null reverse-path <>) / last recipient whose outcomes are allow, deny, deny(code,msg), defer, nil, no return, number/string/table/" +
		"boolean/wrong userdata, error(), runtime error; before.message_stored keeps, rewrites any subset of mailboxes/from/to/subject, " +
		"returns a new inbound_message, returns garbage, raises, or mutates the passed message (incl. nested msg.from.address) and then " +
		"raises/returns garbage/nil; optional Go listeners before and after the Lua one) run against SMTP dialogues whose domain policy " +
		"would often decide the opposite way, sequentially (1-3 sessions) or from 4-8 concurrent sessions under -race; oracle: the " +
		"harness evaluates the same tables - deny => that code and text, allow => accepted against policy (recipient limit still applies), " +
		"no answer => exactly the policy outcome, first answering hook wins, stored messages in exactly the predicted mailboxes with the " +
		"predicted sender/recipients/subject (whole-store comparison); non-trivial = a handler outcome contradicts domain policy or a " +
		"rewriting/erroring message_stored fired",
	Quick: 200, Thorough: 1200,
	Gen: func(t *rapid.T) Case {
		c := Case{Script: scriptGen.Draw(t, "script"), Backend: rapid.SampledFrom([]string{"mem", "file"}).Draw(t, "backend")}
		c.Parallel = rapid.IntRange(0, 3).Draw(t, "parallel") == 0
		lo, hi := 1, 3
		if c.Parallel {
			lo, hi = 4, 8
		}
		c.Sessions = rapid.SliceOfN(rapid.SliceOfN(txnGen, 1, 3), lo, hi).Draw(t, "sessions")
		return c
	},
	Run: run,
}

type result struct {
	viols []string
	keys  []string
	msgs  []*hx.EMsg
	nt    bool
}

func run(c Case) *hx.Outcome {
	o := &hx.Outcome{}
	cfg := hx.DefaultCfg()
	cfg.Backend, cfg.NoHTTP = c.Backend, true
	cfg.RejectDomains = []string{"rejected.test"}
	cfg.RejectOrigin = []string{"badorigin.test"}
	cfg.DiscardDomains = []string{"discard.test"}
	cfg.MaxRecipients = 3
	cfg.Lua = c.Script.Lua()
	probe := func(h *extension.Host) {
		h.Events.BeforeMailFromAccepted.AddListener("probe", func(event.SMTPSession) *event.SMTPResponse { return nil })
		h.Events.BeforeRcptToAccepted.AddListener("probe", func(event.SMTPSession) *event.SMTPResponse { return nil })
		h.Events.BeforeMessageStored.AddListener("probe", func(event.InboundMessage) *event.InboundMessage { return nil })
	}
	if len(c.Script.GoFirst) > 0 || c.Script.Probe != "" {
		r := c.Script.GoFirst
		cfg.PreHost = func(h *extension.Host) {
			if c.Script.Probe != "" {
				probe(h)
			}
			if len(r) > 0 {
				h.Events.BeforeMailFromAccepted.AddListener("gofirst", goListener(r, false))
				h.Events.BeforeRcptToAccepted.AddListener("gofirst", goListener(r, true))
			}
		}
	}
	if len(c.Script.GoLast) > 0 {
		r := c.Script.GoLast
		cfg.PostHost = func(h *extension.Host) {
			h.Events.BeforeMailFromAccepted.AddListener("golast", goListener(r, false))
			h.Events.BeforeRcptToAccepted.AddListener("golast", goListener(r, true))
		}
	}
	if strings.TrimSpace(cfg.Lua) == "" {
		cfg.Lua = "-- no handlers\n"
	}
	w, err := hx.NewWorld(cfg)
	if err != nil {
		o.Failf(pid+":harness", "world: %v\n%s", err, cfg.Lua)
		return o
	}
	defer w.Close()
	switch c.Script.Probe {
	case "remove":
		w.Host.Events.BeforeMailFromAccepted.RemoveListener("probe")
		w.Host.Events.BeforeRcptToAccepted.RemoveListener("probe")
		w.Host.Events.BeforeMessageStored.RemoveListener("probe")
		o.Class("a silent listener removed after wiring")
	case "readd":
		probe(w.Host)
		o.Class("a silent listener registered again after wiring")
	}
	results := make([]*result, len(c.Sessions))
	var wg sync.WaitGroup
	if c.Script.Probe == "churn" {
		// the silent listener is registered again and again while the dialogues run
		stop := make(chan struct{})
		churned := make(chan struct{})
		go func() {
			defer close(churned)
			for {
				select {
				case <-stop:
					return
				default:
				}
				probe(w.Host)
				time.Sleep(50 * time.Microsecond)
			}
		}()
		defer func() { close(stop); <-churned }()
		o.Class("a silent listener re-registered continuously during the dialogues")
	}
	for si := range c.Sessions {
		results[si] = &result{}
		if c.Parallel {
			wg.Add(1)
			go func(si int) { defer wg.Done(); session(w, c, cfg, si, results[si]) }(si)
		} else {
			session(w, c, cfg, si, results[si])
		}
	}
	wg.Wait()
	model := hx.NewEModel()
	for _, r := range results {
		for i, v := range r.viols {
			o.Failf(r.keys[i], "%s", v)
		}
		for _, m := range r.msgs {
			model.Add(m)
		}
		if r.nt {
			o.NonTrivial = true
		}
	}
	if !o.Failed() {
		if c.Parallel {
			hx.SortForUnordered(w.Store, model)
		}
		if err := hx.CmpE2E(w.Store, model, []string{"redir1", "redir2", "redir3", "elsewhere"}); err != nil {
			o.Failf(pid+":store-differs", "%v\nscript:\n%s", err, cfg.Lua)
		}
	}
	if c.Parallel {
		o.Class("concurrent sessions")
	}
	return o
}

// decide evaluates Go-first, Lua, Go-last in registration order.
func decide(c Case, luaRules []Rule, hasLua bool, key string) (Out, bool) {
	if out, ok := answer(c.Script.GoFirst, key); ok {
		return out, true
	}
	if hasLua {
		if out, ok := answer(luaRules, key); ok {
			return out, true
		}
	}
	if out, ok := answer(c.Script.GoLast, key); ok {
		return out, true
	}
	return Out{}, false
}

func session(w *hx.World, c Case, cfg hx.Cfg, si int, res *result) {
	fail := func(key, f string, a ...interface{}) {
		res.keys = append(res.keys, pid+":"+key)
		res.viols = append(res.viols, fmt.Sprintf("session %d: ", si)+fmt.Sprintf(f, a...)+"\nscript:\n"+cfg.Lua)
	}
	cl, _, err := w.DialSMTP()
	if err != nil {
		fail("harness", "dial: %v", err)
		return
	}
	defer cl.Close()
	if r, err := cl.Cmd("HELO c.test"); err != nil || r.Code != 250 {
		fail("harness", "HELO: %v %v", r, err)
		return
	}
	for ti, x := range c.Sessions[si] {
		// per-session unique addresses: the session index is part of the local part
		uniq := func(a string) string {
			if a == "" {
				return ""
			}
			l, d := hx.SplitAddr(a)
			return fmt.Sprintf("%ss%dt%d@%s", l, si, ti, d)
		}
		sender := uniq(x.Sender)
		r, err := cl.Cmd("MAIL FROM:<" + sender + ">")
		if err != nil {
			fail("no-reply", "MAIL: %v", err)
			return
		}
		_, sdom := hx.SplitAddr(sender)
		policyOK := hx.RefOriginOK(cfg, sdom)
		out, answered := decide(c, c.Script.MailFrom, c.Script.HasMail, sender)
		wantOK := policyOK
		switch {
		case answered && (out.Kind == "deny" || out.Kind == "denycode"):
			code, msg := 550, "Mail denied by policy"
			if out.Kind == "denycode" {
				code, msg = out.Code, out.Msg
			}
			want := fmt.Sprintf("%03d %s\r\n", code, msg)
			if len(r.Lines) != 1 || r.Lines[0] != want {
				fail("deny-not-honoured", "txn %d: MAIL FROM:<%s> answered %q, the hook denied with %q", ti, sender, r.Lines, want)
			}
			wantOK = false
			res.nt = res.nt || policyOK
		case answered && out.Kind == "allow":
			wantOK = true
			res.nt = res.nt || !policyOK
			if r.Class() != 2 {
				fail("allow-not-honoured", "txn %d: MAIL FROM:<%s> answered %v although a hook allowed it (policy says %v)", ti, sender, r, policyOK)
			}
		default:
			if (r.Class() == 2) != policyOK {
				fail("fallback-not-policy", "txn %d: MAIL FROM:<%s> answered %v; no hook answered, origin policy says accept=%v", ti, sender, r, policyOK)
			}
		}
		if r.Class() != 2 {
			if wantOK {
				return
			}
			continue
		}
		var accepted []string
		for _, rc0 := range x.Rcpts {
			rc := uniq(rc0)
			r, err := cl.Cmd("RCPT TO:<" + rc + ">")
			if err != nil {
				fail("no-reply", "RCPT: %v", err)
				return
			}
			_, rdom := hx.SplitAddr(rc)
			pol := hx.RefAccept(cfg, rdom)
			out, answered := decide(c, c.Script.RcptTo, c.Script.HasRcpt, rc)
			switch {
			case answered && (out.Kind == "deny" || out.Kind == "denycode"):
				code, msg := 550, "Mail denied by policy"
				if out.Kind == "denycode" {
					code, msg = out.Code, out.Msg
				}
				want := fmt.Sprintf("%03d %s\r\n", code, msg)
				if len(r.Lines) != 1 || r.Lines[0] != want {
					fail("deny-not-honoured", "txn %d: RCPT TO:<%s> answered %q, the hook denied with %q", ti, rc, r.Lines, want)
				}
				res.nt = res.nt || pol
			case answered && out.Kind == "allow":
				res.nt = res.nt || !pol
				if want := len(accepted) < cfg.MaxRecipients; (r.Class() == 2) != want {
					fail("allow-not-honoured", "txn %d: RCPT TO:<%s> answered %v although a hook allowed it (%d of max %d accepted)", ti, rc, r, len(accepted), cfg.MaxRecipients)
				}
			default:
				if want := pol && len(accepted) < cfg.MaxRecipients; (r.Class() == 2) != want {
					fail("fallback-not-policy", "txn %d: RCPT TO:<%s> answered %v; no hook answered, accept policy says %v, %d of max %d accepted", ti, rc, r, pol, len(accepted), cfg.MaxRecipients)
				}
			}
			if r.Class() == 2 {
				accepted = append(accepted, rc)
			}
		}
		if len(res.viols) > 0 {
			return
		}
		if len(accepted) == 0 {
			if r, err := cl.Cmd("RSET"); err != nil || r.Class() != 2 {
				fail("harness", "RSET: %v %v", r, err)
				return
			}
			continue
		}
		if r, err := cl.Cmd("DATA"); err != nil || r.Code != 354 {
			fail("harness", "DATA: %v %v", r, err)
			return
		}
		subject := fmt.Sprintf("%s s%dt%d", x.Subject, si, ti)
		msg := &hx.MailMsg{From: &hx.Addr{Name: "Orig", Address: "orig@a.test"}, To: []hx.Addr{{Address: "listed@a.test"}}, Subject: subject, Body: []byte("body\r\n")}
		data := msg.Bytes()
		_, tx := hx.DotStuff(data)
		t0 := time.Now()
		r, err = cl.Data(data)
		if err != nil || r.Code != 250 {
			fail("message-refused", "txn %d: end of DATA answered %v (err %v)", ti, r, err)
			return
		}
		// expected deliveries
		from := &mail.Address{Name: "Orig", Address: "orig@a.test"}
		to := []*mail.Address{{Address: "listed@a.test"}}
		subj := subject
		var boxes []string
		for _, rc := range accepted {
			l, d := hx.SplitAddr(rc)
			if hx.RefStore(cfg, d) {
				boxes = append(boxes, strings.ToLower(l))
			}
		}
		if c.Script.HasStored {
			for _, sr := range c.Script.Stored {
				if !strings.Contains(subject, sr.Token) {
					continue
				}
				d := sr.Do
				switch d.Kind {
				case "rewrite", "new":
					res.nt = true
					if d.Kind == "new" {
						// a fresh inbound message: nothing is carried over
						boxes, from, to, subj = nil, nil, nil, ""
					} else {
						// the hook sees every accepted recipient's mailbox, not the store-policy selection
						boxes = nil
						for _, rc := range accepted {
							l, _ := hx.SplitAddr(rc)
							boxes = append(boxes, strings.ToLower(l))
						}
					}
					if d.SetBoxes {
						boxes = append([]string{}, d.Mailboxes...)
					}
					if d.From != nil {
						from = d.From.Mail()
					}
					if d.SetTo {
						to = nil
						for i := range d.To {
							to = append(to, d.To[i].Mail())
						}
					}
					if d.SetSubj {
						subj = d.Subject
					}
				case "inplace":
					res.nt = true
					boxes = nil
					for _, rc := range accepted {
						l, _ := hx.SplitAddr(rc)
						boxes = append(boxes, strings.ToLower(l))
					}
					from = &mail.Address{Name: from.Name, Address: "inplace-from@a.test"}
					if len(to) > 0 {
						to = append([]*mail.Address{{Name: "In Place", Address: "inplace-to@a.test"}}, to[1:]...)
					}
				case "error", "mutate-error", "mutate-garbage", "mutate-nil", "garbage":
					res.nt = true
				}
				break
			}
		}
		for _, b := range boxes {
			res.msgs = append(res.msgs, &hx.EMsg{Mailbox: b, From: from, To: to, Subject: subj, Sender: sender, Helo: "c.test", Data: tx, NotBefo: t0, NotAfter: time.Now()})
		}
	}
}

func TestProp(t *testing.T)    { prop.Check(t) }
func TestRegress(t *testing.T) { prop.Regress(t) }
func TestReplay(t *testing.T) {
	if *hx.ReplayPath == "" {
		t.Skip("no -replay")
	}
	if !prop.Replay(t, *hx.ReplayPath) {
		t.Fatalf("no prop matches %s", *hx.ReplayPath)
	}
}
func TestMain(m *testing.M) { hx.Main(m) }
