package c10

import (
	"os"
	"testing"

	"github.com/inbucket/inbucket/v3/pkg/extension"
	"pgregory.net/rapid"
	"verif/harness/hx"
)

const pid = "C10"

// Case is a file-store history with reopen points.
type Case struct {
	Cap   int      `json:"cap"`
	Boxes []string `json:"boxes"`
	Ops   []hx.Op  `json:"ops"`
	ScanK []int    `json:"scan_k"` // cutoff offsets used by successive scan ops
	Caps  []int    `json:"caps"`   // the cap each successive reopen is configured with (the server may be restarted with another setting)
}

var kinds = []string{"add", "add", "add", "add", "get", "list", "seen", "seen", "remove", "remove", "purge", "visit", "reopen", "reopen", "scan"}

var prop = hx.Prop[Case]{
	ID: pid, Name: "reopen",
	Rule: "rapid-generated file-store histories of 10-60 steps (add/get/list/mark-seen/remove/purge/visit/retention-scan, cap 0/2/3) with " +
		"'reopen' steps that construct a fresh file.New on the same path and continue on it; after every step (hence after every reopen and " +
		"every later operation) the whole store must equal the reference model: same mailboxes, order, ids, metadata, seen flags, sizes, " +
		"content; non-trivial = a reopen that follows an add, a mark-seen and a remove/purge and is itself followed by a further mutation; " +
		"distinct = distinct case JSON",
	Quick: 800, Thorough: 3000,
	Gen: func(t *rapid.T) Case {
		return Case{
			Cap:   rapid.SampledFrom([]int{0, 0, 2, 3}).Draw(t, "cap"),
			Boxes: hx.BoxesGen(3, 5).Draw(t, "boxes"),
			Ops:   rapid.SliceOfN(hx.OpGen(kinds), 10, 60).Draw(t, "ops"),
			ScanK: rapid.SliceOfN(rapid.IntRange(-100000000, 100000000), 4, 4).Draw(t, "scank"),
			Caps:  rapid.SliceOfN(rapid.SampledFrom([]int{-1, -1, -1, 0, 1, 2, 3}), 4, 4).Draw(t, "caps"),
		}
	},
	Run: run,
}

func run(c Case) *hx.Outcome {
	o := &hx.Outcome{}
	dir := hx.TempDir()
	defer os.RemoveAll(dir)
	s := &hx.Sys{Name: "file", Store: hx.NewFile(extension.NewHost(), dir, c.Cap), Model: hx.NewModel(c.Cap, 0), Boxes: c.Boxes}
	curCap := c.Cap
	var added, seen, cleared, reopenedAfterAll, nt bool
	reopens, scans := 0, 0
	for i, op := range c.Ops {
		switch op.K {
		case "reopen":
			// -1 = same cap as before; otherwise the restarted server has a new setting, which takes
			// effect at the next delivery (the model evicts the oldest down to the cap then)
			if len(c.Caps) > 0 {
				if nc := c.Caps[reopens%len(c.Caps)]; nc >= 0 {
					curCap = nc
					s.Model.Cap = nc
					o.Class("reopened with a different cap")
				}
			}
			s.Store = hx.NewFile(extension.NewHost(), dir, curCap)
			reopens++
			if added && seen && cleared {
				reopenedAfterAll = true
			}
		case "scan":
			cut := hx.ScanCutoff(s.Model, c.ScanK[scans%len(c.ScanK)])
			scans++
			if _, err := hx.DoScan(s.Store, s.Model, cut); err != nil {
				o.Failf(pid+":scan-error", "retention scan on the (reopened) store failed: %v", err)
			}
		default:
			obs := s.Apply(pid, op, o)
			switch {
			case op.K == "add":
				added = true
				if reopenedAfterAll {
					nt = true
				}
			case obs == "seen ok":
				seen = true
				if reopenedAfterAll {
					nt = true
				}
			case obs == "remove ok" || op.K == "purge":
				cleared = true
				if reopenedAfterAll {
					nt = true
				}
			}
		}
		s.Check(pid, i, o)
		if o.Failed() {
			break
		}
	}
	if reopens > 0 {
		o.Class("has reopen")
	}
	if reopens > 1 {
		o.Class("several reopens")
	}
	if scans > 0 {
		o.Class("has retention scan")
	}
	if c.Cap > 0 {
		o.Class("cap enabled")
	}
	o.NonTrivial = nt
	return o
}

func TestProp(t *testing.T)    { prop.Check(t) }
func TestRegress(t *testing.T) { prop.Regress(t) }
func TestReplay(t *testing.T) {
	if *hx.ReplayPath == "" {
		t.Skip("no -replay")
	}
	if !prop.Replay(t, *hx.ReplayPath) {
		t.Fatalf("no prop matches %s", *hx.ReplayPath)
	}
}
func TestMain(m *testing.M) { hx.Main(m) }
