package c10

import (
	"bytes"
	"fmt"
	"os"
	"sort"
	"sync"
	"testing"
	"time"

	"github.com/inbucket/inbucket/v3/pkg/extension"
	"github.com/inbucket/inbucket/v3/pkg/storage"
	"pgregory.net/rapid"
	"verif/harness/hx"
)

const pid = "C10"

// Case is a file-store history with reopen points.
type Case struct {
	Cap   int      `json:"cap"`
	Boxes []string `json:"boxes"`
	Ops   []hx.Op  `json:"ops"`
	ScanK []int    `json:"scan_k"` // cutoff offsets used by successive scan ops
	Caps  []int    `json:"caps"`   // the cap each successive reopen is configured with (the server may be restarted with another setting)
}

var kinds = []string{"add", "add", "add", "add", "get", "list", "seen", "seen", "remove", "remove", "purge", "visit", "reopen", "reopen", "scan", "addfail"}

var prop = hx.Prop[Case]{
	ID: pid, Name: "reopen",
	Rule: "rapid-generated file-store histories of 10-60 steps (add/get/list/mark-seen/remove/purge/visit/retention-scan, cap 0/2/3) with " +
		"'reopen' steps that construct a fresh file.New on the same path and continue on it; after every step (hence after every reopen and " +
		"every later operation) the whole store must equal the reference model: same mailboxes, order, ids, metadata, seen flags, sizes, " +
		"content; non-trivial = a reopen that follows an add, a mark-seen and a remove/purge and is itself followed by a further mutation; " +
		"distinct = distinct case JSON",
	Quick: 800, Thorough: 3000,
	Gen: func(t *rapid.T) Case {
		return Case{
			Cap:   rapid.SampledFrom([]int{0, 0, 2, 3}).Draw(t, "cap"),
			Boxes: hx.BoxesGen(3, 5).Draw(t, "boxes"),
			Ops:   rapid.SliceOfN(hx.OpGen(kinds), 10, 60).Draw(t, "ops"),
			ScanK: rapid.SliceOfN(rapid.IntRange(-100000000, 100000000), 4, 4).Draw(t, "scank"),
			Caps:  rapid.SliceOfN(rapid.SampledFrom([]int{-1, -1, -1, 0, 1, 2, 3}), 4, 4).Draw(t, "caps"),
		}
	},
	Run: run,
}

func run(c Case) *hx.Outcome {
	o := &hx.Outcome{}
	dir := hx.TempDir()
	defer os.RemoveAll(dir)
	s := &hx.Sys{Name: "file", Store: hx.NewFile(extension.NewHost(), dir, c.Cap), Model: hx.NewModel(c.Cap, 0), Boxes: c.Boxes}
	curCap := c.Cap
	var added, seen, cleared, reopenedAfterAll, nt bool
	reopens, scans := 0, 0
	for i, op := range c.Ops {
		switch op.K {
		case "reopen":
			// -1 = same cap as before; otherwise the restarted server has a new setting, which takes
			// effect at the next delivery (the model evicts the oldest down to the cap then)
			if len(c.Caps) > 0 {
				if nc := c.Caps[reopens%len(c.Caps)]; nc >= 0 {
					curCap = nc
					s.Model.Cap = nc
					o.Class("reopened with a different cap")
				}
			}
			s.Store = hx.NewFile(extension.NewHost(), dir, curCap)
			reopens++
			if added && seen && cleared {
				reopenedAfterAll = true
			}
		case "scan":
			cut := hx.ScanCutoff(s.Model, c.ScanK[scans%len(c.ScanK)])
			scans++
			if _, err := hx.DoScan(s.Store, s.Model, cut); err != nil {
				o.Failf(pid+":scan-error", "retention scan on the (reopened) store failed: %v", err)
			}
		default:
			obs := s.Apply(pid, op, o)
			switch {
			case op.K == "add":
				added = true
				if reopenedAfterAll {
					nt = true
				}
			case obs == "seen ok":
				seen = true
				if reopenedAfterAll {
					nt = true
				}
			case obs == "remove ok" || op.K == "purge":
				cleared = true
				if reopenedAfterAll {
					nt = true
				}
			}
		}
		s.Check(pid, i, o)
		if o.Failed() {
			break
		}
	}
	if reopens > 0 {
		o.Class("has reopen")
	}
	if reopens > 1 {
		o.Class("several reopens")
	}
	if scans > 0 {
		o.Class("has retention scan")
	}
	if c.Cap > 0 {
		o.Class("cap enabled")
	}
	o.NonTrivial = nt
	return o
}

// ---- busy: what concurrent clients left behind is what a restart shows ----------------

// BOp is one step of a client: deliver, or remove / mark seen the N-th of its OWN earlier
// deliveries that it has not removed yet. Clients never touch each other's messages, so the
// final state is the same for every interleaving.
type BOp struct {
	K    string `json:"k"` // add remove seen
	Box  int    `json:"box"`
	Size int    `json:"size,omitempty"`
	N    int    `json:"n,omitempty"`
}

// BCase: 2-5 clients work on 1-2 mailboxes of one lock bucket, then the store is reopened.
type BCase struct {
	Clients [][]BOp `json:"clients"`
	NBox    int     `json:"nbox"`
}

var propBusy = hx.Prop[BCase]{
	ID: pid, Name: "busy",
	Rule: "file store, no cap: 2-5 concurrent clients each run 4-20 operations (deliver 1..3000 bytes; remove or mark-seen one of its own, still " +
		"present deliveries) on 1-2 mailboxes sharing a lock bucket; since clients only touch their own messages the outcome is independent of the " +
		"interleaving: at quiescence every mailbox must hold exactly the deliveries not removed by their owner, each with its content and seen " +
		"flag, and a fresh file.New on the same path must show the identical listing (order, ids, flags, sizes, content); non-trivial = some " +
		"client removed a message of a mailbox another client delivered to; distinct = distinct case JSON",
	Quick: 60, Thorough: 600,
	Gen: func(t *rapid.T) BCase {
		c := BCase{NBox: rapid.IntRange(1, 2).Draw(t, "nbox")}
		og := rapid.Custom(func(t *rapid.T) BOp {
			return BOp{K: rapid.SampledFrom([]string{"add", "add", "add", "remove", "remove", "seen"}).Draw(t, "k"), Box: rapid.IntRange(0, 1).Draw(t, "box"),
				Size: rapid.SampledFrom([]int{1, 40, 300, 3000}).Draw(t, "size"), N: rapid.IntRange(0, 5).Draw(t, "n")}
		})
		c.Clients = rapid.SliceOfN(rapid.SliceOfN(og, 4, 20), 2, 5).Draw(t, "clients")
		return c
	},
	Run: runBusy,
}

type bmsg struct {
	box, id string
	body    []byte
	seen    bool
}

func runBusy(c BCase) *hx.Outcome {
	o := &hx.Outcome{}
	dir := hx.TempDir()
	defer os.RemoveAll(dir)
	st := hx.NewFile(extension.NewHost(), dir, 0)
	names := hx.Bucket3()[:c.NBox]
	var mu sync.Mutex
	var kept []*bmsg
	removedShared, touched := false, map[string]map[int]bool{}
	var errs []string // collected under mu, the Outcome is not for concurrent use
	opFail := func(f string, a ...interface{}) {
		mu.Lock()
		errs = append(errs, fmt.Sprintf(f, a...))
		mu.Unlock()
	}
	var wg sync.WaitGroup
	done := make(chan struct{})
	for ci, ops := range c.Clients {
		wg.Add(1)
		go func(ci int, ops []BOp) {
			defer wg.Done()
			var mine []*bmsg
			for k, op := range ops {
				box := names[op.Box%len(names)]
				switch op.K {
				case "add":
					body := bytes.Repeat([]byte{byte('a' + ci)}, op.Size)
					body = append(body, []byte(fmt.Sprintf("#%d.%d", ci, k))...)
					id, err := st.AddMessage(hx.NewDelivery(box, nil, nil, hx.BaseTime, "busy", body))
					if err != nil {
						opFail("client %d: AddMessage(%s): %v", ci, box, err)
						return
					}
					mine = append(mine, &bmsg{box: box, id: id, body: body})
					mu.Lock()
					if touched[box] == nil {
						touched[box] = map[int]bool{}
					}
					touched[box][ci] = true
					mu.Unlock()
				case "remove", "seen":
					if len(mine) == 0 {
						continue
					}
					i := op.N % len(mine)
					m := mine[i]
					if op.K == "seen" {
						if err := st.MarkSeen(m.box, m.id); err != nil {
							opFail("client %d: MarkSeen(%s, %s) of its own live message: %v", ci, m.box, m.id, err)
							return
						}
						m.seen = true
						continue
					}
					if err := st.RemoveMessage(m.box, m.id); err != nil {
						opFail("client %d: RemoveMessage(%s, %s) of its own live message: %v", ci, m.box, m.id, err)
						return
					}
					mine = append(mine[:i], mine[i+1:]...)
					mu.Lock()
					if len(touched[m.box]) > 1 {
						removedShared = true
					}
					mu.Unlock()
				}
			}
			mu.Lock()
			kept = append(kept, mine...)
			mu.Unlock()
		}(ci, ops)
	}
	go func() { wg.Wait(); close(done) }()
	select {
	case <-done:
	case <-time.After(60 * time.Second):
		o.Failf(pid+":hang", "the concurrent clients did not finish within 60 s")
		return o
	}
	for _, e := range errs {
		o.Failf(pid+":op-error", "%s", e)
	}
	if o.Failed() {
		return o
	}
	want := map[string]*bmsg{}
	for _, m := range kept {
		want[m.box+"/"+m.id] = m
	}
	// snapshot compares one store instance with the expectation and returns its listing
	snapshot := func(st storage.Store, when string) []string {
		var listing []string
		n := 0
		for _, box := range names {
			ms, err := st.GetMessages(box)
			if err != nil {
				o.Failf(pid+":list-error", "%s: GetMessages(%s): %v", when, box, err)
				return nil
			}
			for _, m := range ms {
				key := box + "/" + m.ID()
				w := want[key]
				if w == nil {
					o.Failf(pid+":unexpected-message", "%s: mailbox %s lists %s, which its owner removed (or nobody delivered)", when, box, m.ID())
					continue
				}
				n++
				src, err := hx.ReadSource(m)
				if err != nil || !bytes.Equal(src, w.body) {
					o.Failf(pid+":content", "%s: %s: content unreadable or different (err %v, %d bytes, want %d)", when, key, err, len(src), len(w.body))
				}
				if m.Seen() != w.seen || m.Size() != int64(len(w.body)) {
					o.Failf(pid+":metadata", "%s: %s: seen=%v size=%d, want seen=%v size=%d", when, key, m.Seen(), m.Size(), w.seen, len(w.body))
				}
				listing = append(listing, fmt.Sprintf("%s seen=%v size=%d", key, m.Seen(), m.Size()))
			}
		}
		if n != len(want) && !o.Failed() {
			var missing []string
			have := map[string]bool{}
			for _, l := range listing {
				have[l[:bytes.IndexByte([]byte(l), ' ')]] = true
			}
			for k := range want {
				if !have[k] {
					missing = append(missing, k)
				}
			}
			sort.Strings(missing)
			o.Failf(pid+":lost-message", "%s: %d deliveries were acknowledged and never removed, %d are listed; missing: %v", when, len(want), n, missing)
		}
		return listing
	}
	before := snapshot(st, "at quiescence")
	if o.Failed() {
		return o
	}
	re := hx.NewFile(extension.NewHost(), dir, 0)
	after := snapshot(re, "after reopening the store")
	if !o.Failed() && fmt.Sprint(before) != fmt.Sprint(after) {
		o.Failf(pid+":reopen-differs", "listing before the restart %v, after %v", before, after)
	}
	o.Class(fmt.Sprintf("%d clients, %d mailboxes", len(c.Clients), c.NBox))
	if removedShared {
		o.Class("removal in a mailbox shared with another client")
	}
	o.NonTrivial = removedShared
	return o
}

func TestProp(t *testing.T)    { prop.Check(t); propBusy.Check(t) }
func TestRegress(t *testing.T) { prop.Regress(t); propBusy.Regress(t) }
func TestReplay(t *testing.T) {
	if *hx.ReplayPath == "" {
		t.Skip("no -replay")
	}
	if !prop.Replay(t, *hx.ReplayPath) && !propBusy.Replay(t, *hx.ReplayPath) {
		t.Fatalf("no prop matches %s", *hx.ReplayPath)
	}
}
func TestMain(m *testing.M) { hx.Main(m) }
