package c09

import (
	"fmt"
	"os"
	"sort"
	"strings"
	"sync"
	"sync/atomic"
	"testing"
	"time"

	"github.com/anishathalye/porcupine"
	"github.com/inbucket/inbucket/v3/pkg/extension"
	"github.com/inbucket/inbucket/v3/pkg/storage"
	"github.com/inbucket/inbucket/v3/pkg/verifhook"
	"pgregory.net/rapid"
	"verif/harness/hx"
)

const pid = "C09"

// COp is one operation of a concurrent client. Ref indexes the ids that client knows so far.
type COp struct {
	K    string `json:"k"` // add get list seen remove purge visit scan
	Box  int    `json:"box"`
	Ref  int    `json:"ref"`
	Size int    `json:"size"`
	Spin int    `json:"spin"` // Gosched calls before the operation (jitter, generated)
}

type Case struct {
	Backend string  `json:"backend"`
	Cap     int     `json:"cap"`
	MaxKB   int     `json:"maxkb"`
	NBoxes  int     `json:"nboxes"`
	Clients [][]COp `json:"clients"`
}

var copGen = rapid.Custom(func(t *rapid.T) COp {
	return COp{
		K:    rapid.SampledFrom([]string{"add", "add", "add", "add", "get", "latest", "list", "seen", "seen", "remove", "remove", "purge", "visit", "scan"}).Draw(t, "k"),
		Box:  rapid.IntRange(0, 3).Draw(t, "box"),
		Ref:  rapid.IntRange(0, 50).Draw(t, "ref"),
		Size: rapid.SampledFrom([]int{10, 100, 400, 900}).Draw(t, "size"),
		Spin: rapid.IntRange(0, 3).Draw(t, "spin"),
	}
})

var propFree = hx.Prop[Case]{
	ID: pid, Name: "free",
	Rule: "2-8 goroutines each run a generated list of 3-12 operations (deliver, get + Seen(), list, mark-seen, remove, purge, visit, retention " +
		"scan) over 1-3 mailboxes that share a lock bucket, on mem (cap 0/2, maxkb 0/1) and file (cap 0/2) stores under the race detector, " +
		"with generated Gosched jitter; every call is timed with a logical clock; oracle: every operation returns (20 s), no panic, no race " +
		"report, ids of concurrent deliveries pairwise distinct, and without a global size limit the recorded history is linearizable w.r.t. " +
		"the ordered-mailbox model (porcupine, partitioned by mailbox, visit = one list observation per mailbox within its window); with " +
		"a size limit: bytes <= limit at quiescence, no id lost without a possible cause, and a message that fits is retrievable after a " +
		"purge of everything (no accounting drift); non-trivial = two operations on one mailbox overlap in time and one is a mutation",
	Quick: 150, Thorough: 800,
	Gen: func(t *rapid.T) Case {
		c := Case{Backend: rapid.SampledFrom([]string{"mem", "mem", "file"}).Draw(t, "backend"), Cap: rapid.SampledFrom([]int{0, 2, 2}).Draw(t, "cap"), NBoxes: rapid.IntRange(1, 3).Draw(t, "nboxes")}
		if c.Backend == "mem" {
			c.MaxKB = rapid.SampledFrom([]int{0, 1, 1}).Draw(t, "maxkb")
		}
		c.Clients = rapid.SliceOfN(rapid.SliceOfN(copGen, 3, 12), 2, 8).Draw(t, "clients")
		return c
	},
	Run: runFree,
}

type inp struct {
	k   string
	box string
	id  string
}

type outp struct {
	id    string
	found bool
	seen  bool
	list  string // "id:0,id:1"
	err   string
}

// state encoding: "id:0,id:1|issued1,issued2"
func step(cap int) func(st, in, out interface{}) (bool, interface{}) {
	return func(st, in, out interface{}) (bool, interface{}) {
		s := st.(string)
		i := in.(inp)
		o := out.(outp)
		parts := strings.SplitN(s, "|", 2)
		var live []string
		if parts[0] != "" {
			live = strings.Split(parts[0], ",")
		}
		issued := parts[1]
		find := func(id string) int {
			for j, e := range live {
				if strings.HasPrefix(e, id+":") {
					return j
				}
			}
			return -1
		}
		enc := func() string { return strings.Join(live, ",") + "|" + issued }
		switch i.k {
		case "add":
			if o.err != "" {
				return false, s
			}
			if strings.Contains(","+issued+",", ","+o.id+",") || o.id == "" {
				return false, s
			}
			live = append(append([]string{}, live...), o.id+":0")
			if cap > 0 {
				for len(live) > cap {
					live = live[1:]
				}
			}
			if issued == "" {
				issued = o.id
			} else {
				issued += "," + o.id
			}
			return true, enc()
		case "get":
			j := find(i.id)
			if j < 0 {
				return !o.found, s
			}
			return o.found, s
		case "latest":
			// the pseudo-id "latest" names the newest message of the mailbox
			if len(live) == 0 {
				return !o.found, s
			}
			last := live[len(live)-1]
			return o.found && o.id == last[:strings.IndexByte(last, ':')], s
		case "list":
			return o.list == parts[0], s
		case "seen":
			j := find(i.id)
			if j < 0 {
				return o.err == "notexist", s
			}
			if o.err != "" {
				return false, s
			}
			return true, s // the flag itself is not modelled here (see listStr)
		case "remove":
			j := find(i.id)
			if j < 0 {
				return o.err == "notexist", s
			}
			if o.err != "" {
				return false, s
			}
			live = append(append([]string{}, live[:j]...), live[j+1:]...)
			return true, enc()
		case "purge":
			if o.err != "" {
				return false, s
			}
			live = nil
			return true, enc()
		}
		return false, s
	}
}

func errStr(err error) string {
	if err == nil {
		return ""
	}
	if hx.IsNotExist(err) {
		return "notexist"
	}
	return err.Error()
}

// listStr is the observation a listing contributes to the linearizability check: the ids in
// order. The seen flags are left out on purpose: the memory store hands out live message
// objects, so ids (read inside the call) and flags (read by the caller afterwards) are seen at
// different instants and a listing is not one atomic observation of both. Flags are read
// (racing with mark-seen, under the race detector) but judged sequentially by C07.
func listStr(ms []storage.Message) string {
	var l []string
	for _, m := range ms {
		_ = m.Seen()
		l = append(l, m.ID()+":0")
	}
	return strings.Join(l, ",")
}

func mkStore(c Case) (storage.Store, func()) {
	host := extension.NewHost()
	if c.Backend == "file" {
		dir := hx.TempDir()
		return hx.NewFile(host, dir, c.Cap), func() { os.RemoveAll(dir) }
	}
	return hx.NewMem(host, c.Cap, c.MaxKB), func() {}
}

func runFree(c Case) *hx.Outcome {
	o := &hx.Outcome{}
	st, cleanup := mkStore(c)
	defer cleanup()
	names := hx.Bucket3()[:c.NBoxes]
	var clock atomic.Int64
	var mu sync.Mutex
	var hist []porcupine.Operation
	var allIDs []string
	addedBytes := map[string]int{}
	record := func(cl int, in inp, out outp, call, ret int64) {
		mu.Lock()
		hist = append(hist, porcupine.Operation{ClientId: cl, Input: in, Output: out, Call: call, Return: ret})
		mu.Unlock()
	}
	var wg sync.WaitGroup
	start := make(chan struct{})
	for ci, ops := range c.Clients {
		wg.Add(1)
		go func(ci int, ops []COp) {
			defer wg.Done()
			<-start
			var known []string
			for _, op := range ops {
				for s := 0; s < op.Spin; s++ {
					time.Sleep(0)
				}
				box := names[op.Box%len(names)]
				id := "none"
				if len(known) > 0 {
					id = known[op.Ref%len(known)]
				}
				call := clock.Add(1)
				switch op.K {
				case "add":
					body := make([]byte, op.Size)
					nid, err := st.AddMessage(hx.NewDelivery(box, nil, nil, hx.BaseTime, "c", body))
					ret := clock.Add(1)
					record(ci, inp{"add", box, ""}, outp{id: nid, err: errStr(err)}, call, ret)
					if err == nil {
						known = append(known, nid)
						mu.Lock()
						allIDs = append(allIDs, box+"/"+nid)
						addedBytes[box+"/"+nid] = op.Size
						mu.Unlock()
					}
				case "get":
					m, err := st.GetMessage(box, id)
					out := outp{found: err == nil && m != nil}
					if out.found {
						out.seen = m.Seen()
					}
					record(ci, inp{"get", box, id}, out, call, clock.Add(1))
				case "latest":
					m, err := st.GetMessage(box, "latest")
					out := outp{found: err == nil && m != nil}
					if out.found {
						out.id = m.ID()
					}
					record(ci, inp{"latest", box, ""}, out, call, clock.Add(1))
				case "list":
					ms, err := st.GetMessages(box)
					out := outp{list: listStr(ms), err: errStr(err)}
					record(ci, inp{"list", box, ""}, out, call, clock.Add(1))
					for _, m := range ms {
						known = append(known, m.ID())
					}
				case "seen":
					err := st.MarkSeen(box, id)
					record(ci, inp{"seen", box, id}, outp{err: errStr(err)}, call, clock.Add(1))
				case "remove":
					err := st.RemoveMessage(box, id)
					record(ci, inp{"remove", box, id}, outp{err: errStr(err)}, call, clock.Add(1))
				case "purge":
					err := st.PurgeMessages(box)
					record(ci, inp{"purge", box, ""}, outp{err: errStr(err)}, call, clock.Add(1))
				case "visit", "scan":
					seen := map[string]string{}
					err := st.VisitMailboxes(func(ms []storage.Message) bool {
						if len(ms) > 0 {
							seen[ms[0].Mailbox()] = listStr(ms)
						}
						return true
					})
					ret := clock.Add(1)
					if err != nil {
						record(ci, inp{"visit-error", box, ""}, outp{err: err.Error()}, call, ret)
					}
					for b, l := range seen {
						record(ci, inp{"list", b, ""}, outp{list: l}, call, ret)
					}
				}
			}
		}(ci, ops)
	}
	close(start)
	done := make(chan struct{})
	go func() { wg.Wait(); close(done) }()
	select {
	case <-done:
	case <-time.After(hx.ReplyTimeout):
		o.Failf(pid+":deadlock", "[%s cap=%d maxkb=%d] concurrent clients did not finish within %v", c.Backend, c.Cap, c.MaxKB, hx.ReplyTimeout)
		return o
	}
	// ids pairwise distinct
	sort.Strings(allIDs)
	for i := 1; i < len(allIDs); i++ {
		if allIDs[i] == allIDs[i-1] {
			o.Failf(pid+":duplicate-id", "two deliveries received the same id %s", allIDs[i])
		}
	}
	overlap := false
	byBox := map[string][]porcupine.Operation{}
	for _, h := range hist {
		in := h.Input.(inp)
		if in.k == "visit-error" {
			o.Failf(pid+":visit-error", "VisitMailboxes failed during concurrent use: %s", h.Output.(outp).err)
			continue
		}
		byBox[in.box] = append(byBox[in.box], h)
	}
	for _, ops := range byBox {
		for i := range ops {
			for j := range ops {
				if i != j && ops[i].Call < ops[j].Return && ops[j].Call < ops[i].Return {
					k := ops[i].Input.(inp).k
					if k != "get" && k != "list" {
						overlap = true
					}
				}
			}
		}
	}
	o.NonTrivial = overlap
	if c.MaxKB == 0 {
		for box, ops := range byBox {
			model := porcupine.Model{Init: func() interface{} { return "|" }, Step: step(c.Cap)}
			res := porcupine.CheckOperationsTimeout(model, ops, 10*time.Second)
			if res == porcupine.Illegal {
				o.Failf(pid+":not-linearizable", "[%s cap=%d] the history on mailbox %q has no sequential explanation consistent with real time: %s", c.Backend, c.Cap, box, describe(ops))
			} else if res == porcupine.Unknown {
				o.Class("linearizability check timed out (inconclusive)")
			}
		}
	} else {
		// global size limit: conservation invariants
		var total int64
		present := map[string]bool{}
		_ = st.VisitMailboxes(func(ms []storage.Message) bool {
			for _, m := range ms {
				total += m.Size()
				present[m.Mailbox()+"/"+m.ID()] = true
			}
			return true
		})
		if total > int64(c.MaxKB)*1024 {
			o.Failf(pid+":over-limit", "at quiescence the store holds %d bytes, limit %d", total, c.MaxKB*1024)
		}
		for k := range present {
			if _, ok := addedBytes[k]; !ok {
				o.Failf(pid+":phantom", "message %s is present but was never delivered", k)
			}
		}
		// no accounting drift: after purging everything a message that fits must be kept
		for _, b := range names {
			_ = st.PurgeMessages(b)
		}
		id, err := st.AddMessage(hx.NewDelivery(names[0], nil, nil, hx.BaseTime, "fit", make([]byte, 900)))
		if m, gerr := st.GetMessage(names[0], id); err != nil || gerr != nil || m == nil {
			o.Failf(pid+":accounting-drift", "[mem maxkb=%d] after the concurrent phase and a purge of every mailbox, a 900-byte message is not kept (add err %v, get err %v): the size enforcer's accounting drifted", c.MaxKB, err, gerr)
		}
	}
	o.Class(fmt.Sprintf("backend %s", c.Backend))
	if c.MaxKB > 0 {
		o.Class("size limit (invariants)")
	} else {
		o.Class("linearizability checked")
	}
	return o
}

func describe(ops []porcupine.Operation) string {
	sort.Slice(ops, func(i, j int) bool { return ops[i].Call < ops[j].Call })
	var b strings.Builder
	for _, h := range ops {
		in, out := h.Input.(inp), h.Output.(outp)
		fmt.Fprintf(&b, "\n  [%d,%d] c%d %s(%s) -> id=%s found=%v seen=%v list=%q err=%q", h.Call, h.Return, h.ClientId, in.k, in.id, out.id, out.found, out.seen, out.list, out.err)
	}
	return b.String()
}

// ---- (a) controlled schedules at yield points ----

type SCase struct {
	Backend string `json:"backend"`
	Cap     int    `json:"cap"`
	MaxKB   int    `json:"maxkb"`
	Prefix  []COp  `json:"prefix"`
	A       COp    `json:"a"`     // the operation that is paused
	Point   string `json:"point"` // yield-point prefix at which A is paused
	Nth     int    `json:"nth"`   // its n-th occurrence
	B       []COp  `json:"b"`     // operations run while A is paused ("target" ops aim at A's message)
}

var points = []string{"mem.add.visible", "mem.remove.removed", "mem.purge.cleared", "mem.enforcer.evict", "mem.visit.mailbox", "file.visit.level1", "file.visit.level2", "file.visit.mailbox", "retention.scan.mailbox"}

var propSched = hx.Prop[SCase]{
	ID: pid, Name: "sched",
	Rule: "a generated prefix history, then operation A (deliver / remove / purge / visit / retention scan) is paused at a named yield point " +
		"(between 'message visible' and 'registered with the size enforcer', between removal and enforcer notification, inside the " +
		"enforcer's eviction loop, between mailboxes of a visit, between directory levels of the file store's visit), 1-4 generated " +
		"operations B run meanwhile (incl. remove/purge aimed at the very message A is delivering), then A is released; oracle: no " +
		"panic, everything returns within 20 s, no race report, no visit error, bytes <= limit, a fitting message is kept after purging " +
		"everything (no drift), A's delivered id is present unless a B operation could have removed it; non-trivial = B contains a mutation " +
		"of A's mailbox and the yield point was actually reached",
	Quick: 150, Thorough: 1500,
	Gen: func(t *rapid.T) SCase {
		c := SCase{Backend: rapid.SampledFrom([]string{"mem", "mem", "mem", "file"}).Draw(t, "backend"), Cap: rapid.SampledFrom([]int{0, 0, 1, 2}).Draw(t, "cap")}
		if c.Backend == "mem" {
			c.MaxKB = rapid.SampledFrom([]int{0, 1, 1, 2}).Draw(t, "maxkb")
		}
		// with both limits on, the store's oldest messages fill mailbox 0 up to its cap: a delivery
		// there must evict by cap while the size enforcer's next victim is in the same mailbox
		if c.Cap > 0 && c.MaxKB > 0 {
			for i := 0; i < c.Cap; i++ {
				c.Prefix = append(c.Prefix, COp{K: "add", Box: 0, Size: 300})
			}
		}
		// a few deliveries first so that removals, visits and evictions have something to work on
		for i := 0; i < 3; i++ {
			c.Prefix = append(c.Prefix, COp{K: "add", Box: i, Size: rapid.SampledFrom([]int{100, 400, 900}).Draw(t, "psize")})
		}
		c.Prefix = append(c.Prefix, rapid.SliceOfN(copGen, 0, 6).Draw(t, "prefix")...)
		// A and a yield point A actually passes
		type ap struct{ k, point string }
		var cand []ap
		if c.Backend == "mem" {
			cand = []ap{{"add", "mem.add.visible"}, {"add", "mem.add.visible"}, {"remove", "mem.remove.removed"}, {"purge", "mem.purge.cleared"},
				{"visit", "mem.visit.mailbox"}, {"scan", "retention.scan.mailbox"}, {"scan", "mem.visit.mailbox"}}
			if c.MaxKB > 0 {
				cand = append(cand, ap{"add", "mem.enforcer.evict"}, ap{"add", "mem.enforcer.evict"})
			}
		} else {
			cand = []ap{{"visit", "file.visit.level1"}, {"visit", "file.visit.level2"}, {"visit", "file.visit.mailbox"}, {"scan", "file.visit.level2"},
				{"scan", "file.visit.mailbox"}, {"scan", "retention.scan.mailbox"}}
		}
		pick := rapid.SampledFrom(cand).Draw(t, "a")
		c.A = COp{K: pick.k, Box: rapid.IntRange(0, 2).Draw(t, "abox"), Ref: rapid.IntRange(0, 9).Draw(t, "aref"), Size: rapid.SampledFrom([]int{100, 600, 900, 1500}).Draw(t, "asize")}
		c.Point = pick.point
		c.Nth = rapid.IntRange(0, 1).Draw(t, "nth")
		c.B = rapid.SliceOfN(rapid.Custom(func(t *rapid.T) COp {
			op := copGen.Draw(t, "bop")
			switch rapid.IntRange(0, 3).Draw(t, "aim") {
			case 0:
				op.K = rapid.SampledFrom([]string{"remove-target", "purge-target", "add"}).Draw(t, "aimk")
				op.Box = c.A.Box
			case 1:
				op.K, op.Box, op.Size = "add", 0, 100 // deliver into the mailbox holding the oldest messages
			}
			return op
		}), 1, 4).Draw(t, "b")
		return c
	},
	Run: runSched,
}

func runSched(c SCase) *hx.Outcome {
	o := &hx.Outcome{}
	st, cleanup := mkStore(Case{Backend: c.Backend, Cap: c.Cap, MaxKB: c.MaxKB})
	defer cleanup()
	names := append(append([]string{}, hx.Bucket3()...), "solo")[:3]
	known := map[string][]string{}
	var kmu sync.Mutex
	inPrefix := true
	var fresh [][2]string // (mailbox, id) of every delivery made while or after A runs
	apply := func(op COp, target string) (string, error) {
		box := names[op.Box%len(names)]
		id := "none"
		kmu.Lock()
		if l := known[box]; len(l) > 0 {
			id = l[op.Ref%len(l)]
		}
		kmu.Unlock()
		switch op.K {
		case "add":
			// the prefix delivers mail that a retention scan will find expired; everything
			// delivered while or after A runs is fresh and no scan may touch it
			date := hx.BaseTime
			kmu.Lock()
			old := inPrefix
			kmu.Unlock()
			if old {
				date = hx.BaseTime.Add(-48 * time.Hour)
			}
			nid, err := st.AddMessage(hx.NewDelivery(box, nil, nil, date, "s", make([]byte, op.Size)))
			if err == nil {
				kmu.Lock()
				known[box] = append(known[box], nid)
				if !old {
					fresh = append(fresh, [2]string{box, nid})
				}
				kmu.Unlock()
			}
			return nid, err
		case "get":
			m, err := st.GetMessage(box, id)
			if err == nil && m != nil {
				_ = m.Seen()
			}
			return "", nil
		case "latest":
			_, _ = st.GetMessage(box, "latest")
			return "", nil
		case "list":
			_, err := st.GetMessages(box)
			return "", err
		case "seen":
			_ = st.MarkSeen(box, id)
		case "remove":
			_ = st.RemoveMessage(box, id)
		case "remove-target":
			if target != "" {
				_ = st.RemoveMessage(box, target)
			}
		case "purge", "purge-target":
			return "", st.PurgeMessages(box)
		case "visit":
			return "", st.VisitMailboxes(func([]storage.Message) bool { return true })
		case "scan":
			_, err := hx.DoScan(st, hx.NewModel(0, 0), hx.BaseTime.Add(-time.Hour))
			return "", err
		}
		return "", nil
	}
	for _, op := range c.Prefix {
		if op.K == "visit" || op.K == "scan" {
			continue
		}
		if _, err := apply(op, ""); err != nil {
			o.Failf(pid+":harness", "prefix %s: %v", op.K, err)
			return o
		}
	}
	kmu.Lock()
	inPrefix = false
	kmu.Unlock()
	// pause A at the chosen point
	var hits atomic.Int32
	reached := make(chan string, 1)
	release := make(chan struct{})
	var once sync.Once
	verifhook.SetYield(func(point string) {
		if !strings.HasPrefix(point, c.Point) {
			return
		}
		if int(hits.Add(1))-1 != c.Nth {
			return
		}
		once.Do(func() {
			reached <- point
			<-release
		})
	})
	defer verifhook.SetYield(nil)
	aDone := make(chan error, 1)
	var aID string
	go func() {
		id, err := apply(c.A, "")
		kmu.Lock()
		aID = id
		kmu.Unlock()
		aDone <- err
	}()
	target := ""
	paused := false
	var aErr error
	aFinished := false
	select {
	case p := <-reached:
		paused = true
		if f := strings.Fields(p); len(f) == 2 && strings.Contains(f[1], "/") {
			target = f[1][strings.LastIndexByte(f[1], '/')+1:]
		}
	case aErr = <-aDone:
		aFinished = true
		// only A is ever paused: it returned without reaching the point
		verifhook.SetYield(nil)
		once.Do(func() {})
	case <-time.After(hx.ReplyTimeout):
		o.Failf(pid+":deadlock", "operation A (%s) neither reached the yield point nor returned within %v", c.A.K, hx.ReplyTimeout)
		return o
	}
	mutatesA := false
	for _, op := range c.B {
		if names[op.Box%len(names)] == names[c.A.Box%len(names)] && op.K != "get" && op.K != "list" && op.K != "visit" {
			mutatesA = true
		}
		bDone := make(chan error, 1)
		go func(op COp) { _, err := apply(op, target); bDone <- err }(op)
		select {
		case err := <-bDone:
			if err != nil {
				o.Failf(pid+":op-error", "[%s] operation %s while A (%s) is paused at %s: %v", c.Backend, op.K, c.A.K, c.Point, err)
			}
		case <-time.After(300 * time.Millisecond):
			// B waits for something A holds: let A go on, then B must complete
			if paused {
				close(release)
				paused = false
			}
			select {
			case err := <-bDone:
				if err != nil {
					o.Failf(pid+":op-error", "[%s] operation %s concurrent with A (%s): %v", c.Backend, op.K, c.A.K, err)
				}
			case <-time.After(hx.ReplyTimeout):
				o.Failf(pid+":deadlock", "[%s cap=%d maxkb=%d] operation %s did not return within %v (A=%s paused at %s then released)", c.Backend, c.Cap, c.MaxKB, op.K, hx.ReplyTimeout, c.A.K, c.Point)
				return o
			}
		}
	}
	if paused {
		close(release)
	}
	if !aFinished {
		select {
		case aErr = <-aDone:
		case <-time.After(hx.ReplyTimeout):
			o.Failf(pid+":deadlock", "[%s] operation A (%s) did not return within %v after its release", c.Backend, c.A.K, hx.ReplyTimeout)
			return o
		}
	}
	verifhook.SetYield(nil)
	if aErr != nil {
		o.Failf(pid+":op-error", "[%s] operation A (%s), paused at %s while %d operations ran, returned %v", c.Backend, c.A.K, c.Point, len(c.B), aErr)
	}
	// conservation: a fresh delivery (A's or one of B's) is present afterwards unless a limit
	// could have evicted it or a removal/purge of its mailbox ran; a retention scan is no
	// excuse, it may only take the expired mail of the prefix
	_ = aID
	cleared := map[string]bool{}
	for _, op := range append([]COp{c.A}, c.B...) {
		if strings.HasPrefix(op.K, "remove") || strings.HasPrefix(op.K, "purge") {
			cleared[names[op.Box%len(names)]] = true
		}
	}
	for _, f := range fresh {
		if c.Cap > 0 || c.MaxKB > 0 || cleared[f[0]] {
			continue
		}
		if m, err := st.GetMessage(f[0], f[1]); err != nil || m == nil {
			o.Failf(pid+":lost-delivery", "[%s] A=%s paused at %s, B=%v: the delivery to %q that returned id %s is gone although no limit is set and nothing removed or purged that mailbox (get: %v)", c.Backend, c.A.K, c.Point, c.B, f[0], f[1], err)
		}
	}
	if c.MaxKB > 0 {
		var total int64
		_ = st.VisitMailboxes(func(ms []storage.Message) bool {
			for _, m := range ms {
				total += m.Size()
			}
			return true
		})
		if total > int64(c.MaxKB)*1024 {
			o.Failf(pid+":over-limit", "store holds %d bytes, limit %d", total, c.MaxKB*1024)
		}
		for _, b := range names {
			_ = st.PurgeMessages(b)
		}
		id, err := st.AddMessage(hx.NewDelivery(names[0], nil, nil, hx.BaseTime, "fit", make([]byte, 900)))
		if m, gerr := st.GetMessage(names[0], id); err != nil || gerr != nil || m == nil {
			o.Failf(pid+":accounting-drift", "[mem cap=%d maxkb=%d] A=%s paused at %s, B=%v: afterwards, with every mailbox purged, a 900-byte message is not kept: the size accounting drifted", c.Cap, c.MaxKB, c.A.K, c.Point, c.B)
		}
	}
	o.NonTrivial = mutatesA && (paused || hits.Load() > 0)
	if hits.Load() > 0 {
		o.Class("yield point reached: " + c.Point)
	}
	return o
}

// ---- (c) directory churn: sibling mailboxes toggling between empty and non-empty ----

type ChCase struct {
	Backend string `json:"backend"`
	Iter    int    `json:"iter"`
	Workers int    `json:"workers"`
	Mode    []int  `json:"mode"` // per worker: 0 add-get-remove, 1 add-add-purge, 2 add-remove-visit, 3 add-list a purging sibling-remove
}

var propChurn = hx.Prop[ChCase]{
	ID: pid, Name: "churn",
	Rule: "3 workers, each on its own mailbox - names whose hashes share the file store's level-1 directory but differ in the next digit - " +
		"loop 100-400 times over deliver/read/remove (or purge, or visit, or list the purging sibling's mailbox; one purger and one cross-mailbox reader in every case), so every mailbox keeps toggling between empty (directory and " +
		"empty parents removed) and non-empty (directories created) while its siblings do the same; no operation may fail, every delivered " +
		"message must be readable until its owner removes it, and all mailboxes are empty at the end; non-trivial = file back-end",
	Quick: 10, Thorough: 60,
	Gen: func(t *rapid.T) ChCase {
		return ChCase{Backend: rapid.SampledFrom([]string{"file", "file", "file", "mem"}).Draw(t, "backend"), Iter: rapid.IntRange(100, 400).Draw(t, "iter"), Workers: 3,
			// always one worker that purges and one that reads across mailboxes, in any position
			Mode: rapid.Permutation([]int{1, rapid.IntRange(2, 3).Draw(t, "reader"), rapid.IntRange(0, 3).Draw(t, "third")}).Draw(t, "mode")}
	},
	Run: func(c ChCase) *hx.Outcome {
		o := &hx.Outcome{}
		st, cleanup := mkStore(Case{Backend: c.Backend})
		defer cleanup()
		names := hx.Siblings()
		var mu sync.Mutex
		var errs []string
		fail := func(f string, a ...interface{}) {
			mu.Lock()
			if len(errs) < 3 {
				errs = append(errs, fmt.Sprintf(f, a...))
			}
			mu.Unlock()
		}
		var wg sync.WaitGroup
		for wi := 0; wi < c.Workers; wi++ {
			wg.Add(1)
			go func(wi int) {
				defer wg.Done()
				box := names[wi%len(names)]
				for i := 0; i < c.Iter; i++ {
					id, err := st.AddMessage(hx.NewDelivery(box, nil, nil, hx.BaseTime, "c", []byte("churn")))
					if err != nil {
						fail("worker %d iteration %d: AddMessage(%s): %v", wi, i, box, err)
						return
					}
					if m, err := st.GetMessage(box, id); err != nil || m == nil {
						fail("worker %d iteration %d: message %s/%s just delivered is not readable: %v", wi, i, box, id, err)
						return
					}
					switch c.Mode[wi%len(c.Mode)] {
					case 0:
						if err := st.RemoveMessage(box, id); err != nil {
							fail("worker %d iteration %d: RemoveMessage(%s,%s): %v", wi, i, box, id, err)
							return
						}
					case 1:
						if _, err := st.AddMessage(hx.NewDelivery(box, nil, nil, hx.BaseTime, "c", []byte("second"))); err != nil {
							fail("worker %d iteration %d: second AddMessage(%s): %v", wi, i, box, err)
							return
						}
						if err := st.PurgeMessages(box); err != nil {
							fail("worker %d iteration %d: PurgeMessages(%s): %v", wi, i, box, err)
							return
						}
					case 3:
						// list the mailbox of a worker that keeps purging its own: whatever moment the
						// listing falls in, it is a listing (possibly empty), never an error
						target := box
						for wj, m := range c.Mode {
							if m == 1 && wj < c.Workers {
								target = names[wj%len(names)]
							}
						}
						if _, err := st.GetMessages(target); err != nil {
							fail("worker %d iteration %d: GetMessages(%s) while its owner delivers and purges: %v", wi, i, target, err)
							return
						}
						if err := st.RemoveMessage(box, id); err != nil {
							fail("worker %d iteration %d: RemoveMessage(%s,%s): %v", wi, i, box, id, err)
							return
						}
					case 2:
						if err := st.RemoveMessage(box, id); err != nil {
							fail("worker %d iteration %d: RemoveMessage(%s,%s): %v", wi, i, box, id, err)
							return
						}
						if err := st.VisitMailboxes(func([]storage.Message) bool { return true }); err != nil {
							fail("worker %d iteration %d: VisitMailboxes: %v", wi, i, err)
							return
						}
					}
				}
			}(wi)
		}
		done := make(chan struct{})
		go func() { wg.Wait(); close(done) }()
		select {
		case <-done:
		case <-time.After(3 * hx.ReplyTimeout):
			o.Failf(pid+":deadlock", "[%s] churning workers did not finish within %v", c.Backend, 3*hx.ReplyTimeout)
			return o
		}
		for _, e := range errs {
			o.Failf(pid+":op-error", "[%s] %s", c.Backend, e)
		}
		if !o.Failed() {
			for _, b := range names {
				if ms, err := st.GetMessages(b); err != nil || len(ms) != 0 {
					o.Failf(pid+":lost-delivery", "[%s] mailbox %s ends with %d messages (err %v), expected none", c.Backend, b, len(ms), err)
				}
			}
		}
		o.NonTrivial = c.Backend == "file"
		return o
	},
}

func TestProp(t *testing.T) {
	t.Run("sched", propSched.Check)
	t.Run("free", propFree.Check)
	t.Run("churn", propChurn.Check)
}
func TestRegress(t *testing.T) { propSched.Regress(t); propFree.Regress(t); propChurn.Regress(t) }
func TestReplay(t *testing.T) {
	if *hx.ReplayPath == "" {
		t.Skip("no -replay")
	}
	if !propSched.Replay(t, *hx.ReplayPath) && !propFree.Replay(t, *hx.ReplayPath) && !propChurn.Replay(t, *hx.ReplayPath) {
		t.Fatalf("no prop matches %s", *hx.ReplayPath)
	}
}
func TestMain(m *testing.M) { hx.Main(m) }
